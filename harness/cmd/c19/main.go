// C19 harness: executes histories on the real simul/monitor code of /repo --
// bucket set-up, measures (through Monitor.update, or as JSON over real TCP
// connections to a listening Monitor), read-out operations (Collect, String,
// WriteHeader, WriteValues, bucket Get) and AverageStats -- and reports what
// every operation wrote or returned: CSV fields as strings, accessor results
// as IEEE-754 bit patterns (decoded to exact rationals inside Coq).
package main

import (
	"bytes"
	"encoding/json"
	"flag"
	"fmt"
	"io/ioutil"
	"math"
	"math/rand"
	"net"
	"sort"
	"strconv"
	"strings"
	"time"

	"go.dedis.ch/onet/v3/log"
	"go.dedis.ch/onet/v3/simul"
	"go.dedis.ch/onet/v3/simul/monitor"
	"go.dedis.ch/onet/v3/simul/platform"

	"verifharness/lib"
)

// ---------------------------------------------------------------- inputs

type opIn struct {
	Op    string   `json:"op"` // new bucket wire wirebad measure direct collect string header values get average
	Obj   int      `json:"obj,omitempty"`
	Idx   int      `json:"idx,omitempty"`
	Rules []string `json:"rules,omitempty"`
	Name  string   `json:"name,omitempty"`
	V     float64  `json:"v,omitempty"`
	Host  int      `json:"host,omitempty"`
	Conn  int      `json:"conn,omitempty"` // tcp mode: reporting connection carrying this measure
	Srcs  []int    `json:"srcs,omitempty"`
	// wirebad: bytes put on the connection instead of a well-formed message;
	// Name/V/Host are what the failed decode leaves in the monitor's struct
	Raw string `json:"raw,omitempty"`
	// time: a TimeMeasure of the client API bound to Host (NewTimeMeasure when
	// Host is -1), recorded Rec times on connection 0; every Record sends
	// Name_wall, Name_system and Name_user with values the harness cannot know
	Rec int `json:"rec,omitempty"`
	// measures / wires: the block of values Vals recorded Rec times in a row
	// under Name from Host (through Monitor.update / over connection Conn)
	Vals []float64 `json:"vals,omitempty"`
}

type input struct {
	Kind    string      `json:"kind"` // generator template (part of the class)
	Mode    string      `json:"mode"` // api | tcp
	Statics [][2]string `json:"statics"`
	Conns   int         `json:"conns,omitempty"`
	Ops     []opIn      `json:"ops"`
	// CountOnly: recorded values are not known (time measures); compare counts,
	// measure sets per result set and the CSV layout only (Coq: CaseN)
	CountOnly bool `json:"count_only,omitempty"`
	// Readers: that many goroutines loop on read-outs (String, Collect,
	// WriteValues, bucket Get) WHILE the measures are recorded; they are stopped
	// before the read-outs listed in Ops. The model does not contain them: by
	// c19_concurrent_readers_irrelevant read-outs interleaved in any way with the
	// recording change nothing that is reported afterwards.
	Readers int `json:"readers,omitempty"`
}

// ---------------------------------------------------------------- observations

type snapObs struct {
	Name string
	N    int
	Min  float64
	Max  float64
	Avg  float64
	Sum  float64
	Dev  float64
}

type outObs struct {
	Kind   string    // none header values get crash deadlock
	Fields []string  // header fields / csv fields
	Found  bool      // get
	Rows   []snapObs // values / get
	Panic  string
}

func fstr(f float64) string {
	switch {
	case math.IsNaN(f):
		return "NaN"
	case math.IsInf(f, 1):
		return "+Inf"
	case math.IsInf(f, -1):
		return "-Inf"
	}
	return strconv.FormatFloat(f, 'g', -1, 64)
}

func (o outObs) human() interface{} {
	switch o.Kind {
	case "none":
		return "-"
	case "header":
		return map[string]interface{}{"header": strings.Join(o.Fields, ",")}
	case "crash":
		return map[string]interface{}{"panic": o.Panic}
	case "deadlock":
		return "blocked forever"
	case "transport":
		return map[string]interface{}{"monitor": o.Panic}
	}
	rows := []string{}
	for _, r := range o.Rows {
		rows = append(rows, fmt.Sprintf("%s: n=%d min=%s max=%s avg=%s sum=%s dev=%s", r.Name, r.N,
			fstr(r.Min), fstr(r.Max), fstr(r.Avg), fstr(r.Sum), fstr(r.Dev)))
	}
	m := map[string]interface{}{"rows": rows}
	if o.Kind == "values" {
		m["csv"] = strings.Join(o.Fields, ",")
	} else {
		m["found"] = o.Found
	}
	return m
}

func bits(f float64) string { return lib.N(math.Float64bits(f)) }

func (o outObs) coq() string {
	rows := make([]string, len(o.Rows))
	for i, r := range o.Rows {
		rows[i] = lib.Pair(lib.Str(r.Name), lib.App("mkO", lib.Nat(r.N), bits(r.Min), bits(r.Max), bits(r.Avg), bits(r.Sum), bits(r.Dev)))
	}
	fs := make([]string, len(o.Fields))
	for i, f := range o.Fields {
		fs[i] = lib.Str(f)
	}
	switch o.Kind {
	case "none":
		return "ObsNone"
	case "header":
		return lib.App("ObsHeader", lib.List(fs))
	case "values":
		return lib.App("ObsValues", lib.List(fs), lib.List(rows))
	case "get":
		return lib.App("ObsGet", lib.Bool(o.Found), lib.List(rows))
	case "crash":
		return "ObsCrash"
	case "deadlock":
		return "ObsDeadlock"
	case "transport":
		return "ObsTransport"
	}
	panic("bad out kind")
}

var timeSuffixes = []string{"_wall", "_system", "_user"}

// coqOps: the model operations of one input operation (a recorded time
// measure is three wire measures per Record, values unknown: 0)
// coqSeg: Coq list expressions for the model operations of one input
// operation and for the observations of those that return nothing
func (o opIn) coqSeg() (ops string, nobs string, ok bool) {
	if o.Op != "measures" && o.Op != "wires" {
		return "", "", false
	}
	one := "measure"
	if o.Op == "wires" {
		one = "wire"
	}
	blk := make([]string, len(o.Vals))
	for i, v := range o.Vals {
		blk[i] = opIn{Op: one, Name: o.Name, V: v, Host: o.Host}.coq()
	}
	return lib.App("rep_ops", lib.Nat(o.Rec), lib.List(blk)), lib.App("rep_none", lib.Nat(o.Rec), lib.Nat(len(o.Vals))), true
}

// expand: the single measures of a measures / wires operation
func (o opIn) expand() []opIn {
	if o.Op != "measures" && o.Op != "wires" {
		return []opIn{o}
	}
	one := "measure"
	if o.Op == "wires" {
		one = "wire"
	}
	var l []opIn
	for r := 0; r < o.Rec; r++ {
		for _, v := range o.Vals {
			l = append(l, opIn{Op: one, Name: o.Name, V: v, Host: o.Host, Conn: o.Conn})
		}
	}
	return l
}

func (o opIn) coqOps() []string {
	if o.Op != "time" {
		return []string{o.coq()}
	}
	var l []string
	for r := 0; r < o.Rec; r++ {
		for _, sfx := range timeSuffixes {
			l = append(l, opIn{Op: "wire", Name: o.Name + sfx, V: 0, Host: o.Host}.coq())
		}
	}
	return l
}

func (o opIn) coq() string {
	q := func(f float64) string { return lib.App("QB", bits(f)) }
	switch o.Op {
	case "new":
		return "ONew"
	case "bucket":
		rs := make([]string, len(o.Rules))
		for i, r := range o.Rules {
			rs[i] = lib.Str(r)
		}
		return lib.App("OSetBucket", lib.Z(int64(o.Idx)), lib.List(rs))
	case "wire":
		return lib.App("OWire", lib.Str(o.Name), q(o.V), lib.Z(int64(o.Host)))
	case "wirebad":
		return lib.App("OWireErr", lib.Str(o.Name), q(o.V), lib.Z(int64(o.Host)))
	case "measure":
		return lib.App("OMeasure", lib.Str(o.Name), q(o.V), lib.Z(int64(o.Host)))
	case "direct":
		return lib.App("ODirect", lib.Nat(o.Obj), lib.Str(o.Name), q(o.V))
	case "collect":
		return lib.App("OCollect", lib.Nat(o.Obj))
	case "string":
		return lib.App("OString", lib.Nat(o.Obj))
	case "header":
		return lib.App("OHeader", lib.Nat(o.Obj))
	case "values":
		return lib.App("OValues", lib.Nat(o.Obj))
	case "get":
		return lib.App("OGet", lib.Z(int64(o.Idx)))
	case "average":
		return lib.App("OAverage", lib.NatList(o.Srcs))
	}
	panic("bad op " + o.Op)
}

// ---------------------------------------------------------------- running the implementation

type world struct {
	rc      map[string]string
	nstatic int
	objs    []*monitor.Stats
	mon     *monitor.Monitor
}

func splitLine(b *bytes.Buffer) []string {
	s := strings.TrimSuffix(b.String(), "\n")
	if s == "" {
		return []string{}
	}
	return strings.Split(s, ",")
}

// the measure names of a result set, as its CSV header lists them
func (w *world) keys(s *monitor.Stats) []string {
	var b bytes.Buffer
	s.WriteHeader(&b)
	f := splitLine(&b)
	if len(f) < w.nstatic {
		return []string{"<header shorter than the static fields>"}
	}
	f = f[w.nstatic:]
	var ks []string
	for i := 0; i+4 < len(f); i += 5 {
		ks = append(ks, strings.TrimSuffix(f[i], "_min"))
	}
	if len(f)%5 != 0 {
		ks = append(ks, "<header fields not a multiple of 5>")
	}
	return ks
}

func (w *world) rows(s *monitor.Stats) []snapObs {
	var rows []snapObs
	for _, k := range w.keys(s) {
		v := s.Value(k)
		if v == nil {
			// the header names a measure the result set has no value for
			rows = append(rows, snapObs{Name: k + "<no value>"})
			continue
		}
		rows = append(rows, snapObs{k, v.NumValue(), v.Min(), v.Max(), v.Avg(), v.Sum(), v.Dev()})
	}
	return rows
}

func (w *world) exec(o opIn) (res outObs) {
	res = outObs{Kind: "none"}
	obj := func() *monitor.Stats {
		if o.Obj < 0 || o.Obj >= len(w.objs) {
			panic("harness: no such object")
		}
		return w.objs[o.Obj]
	}
	switch o.Op {
	case "new":
		w.objs = append(w.objs, monitor.NewStats(w.rc))
	case "bucket":
		s := monitor.NewStats(w.rc)
		w.objs = append(w.objs, s)
		w.mon.InsertBucket(o.Idx, o.Rules, s)
	case "measure":
		w.mon.VerifUpdate(o.Name, o.V, o.Host)
	case "direct":
		obj().VerifUpdate(o.Name, o.V)
	case "collect":
		obj().Collect()
	case "string":
		_ = obj().String()
	case "header":
		var b bytes.Buffer
		obj().WriteHeader(&b)
		res = outObs{Kind: "header", Fields: splitLine(&b)}
	case "values":
		var b bytes.Buffer
		s := obj()
		s.WriteValues(&b)
		res = outObs{Kind: "values", Fields: splitLine(&b), Rows: w.rows(s)}
	case "get":
		s := w.mon.VerifBucket(o.Idx)
		res = outObs{Kind: "get", Found: s != nil}
		if s != nil {
			res.Rows = w.rows(s)
		}
	case "average":
		var l []*monitor.Stats
		for _, i := range o.Srcs {
			l = append(l, w.objs[i])
		}
		w.objs = append(w.objs, monitor.AverageStats(l))
	default:
		panic("harness: op " + o.Op + " not executable here")
	}
	return
}

// an operation of the statistics code takes microseconds; one that has not
// returned after this long (generous also on a loaded machine) is blocked
const blockDeadline = 5 * time.Second

// deadline for the monitor to register / to finish with its connections; once
// one case of a run has hit it the run is failing anyway and later cases wait less
var transportFailed = false

func transportDeadline() time.Duration {
	if transportFailed {
		return 3 * time.Second
	}
	return 45 * time.Second
}

// guarded runs one operation; a panic in the code under test is an
// observation, and so is an operation that never returns (mutex left locked)
func (w *world) guarded(o opIn) outObs {
	ch := make(chan outObs, 1)
	go func() {
		defer func() {
			if r := recover(); r != nil {
				msg := fmt.Sprint(r)
				if strings.HasPrefix(msg, "harness:") {
					// a fault of this harness is never an observation of the implementation
					ch <- outObs{Kind: "harnessfault", Panic: msg}
					return
				}
				ch <- outObs{Kind: "crash", Panic: msg}
			}
		}()
		ch <- w.exec(o)
	}()
	select {
	case r := <-ch:
		if r.Kind == "harnessfault" {
			panic(r.Panic)
		}
		return r
	case <-time.After(blockDeadline):
		return outObs{Kind: "deadlock"}
	}
}

func newWorld(in input) *world {
	w := &world{rc: map[string]string{}}
	for _, kv := range in.Statics {
		w.rc[kv[0]] = kv[1]
	}
	w.nstatic = len(w.rc)
	w.objs = []*monitor.Stats{monitor.NewStats(w.rc)}
	w.mon = monitor.NewMonitor(w.objs[0])
	return w
}

type wireMeasure struct {
	Name  string
	Value float64
	Host  int
}

// runTCP: bucket set-up, then all "wire" measures sent as JSON over in.Conns
// real TCP connections (connection 0 through the client API of measure.go),
// then the remaining operations once Listen has returned.
func runTCP(in input) (outs []outObs, notes []string) {
	w := newWorld(in)
	w.mon.SinkPort = 0
	i := 0
	for ; i < len(in.Ops) && (in.Ops[i].Op == "bucket" || in.Ops[i].Op == "new"); i++ {
		outs = append(outs, w.guarded(in.Ops[i]))
	}
	nconn := in.Conns
	if nconn < 1 {
		nconn = 1
	}
	per := make([][]wireMeasure, nconn)
	raw := make([][]string, nconn) // raw[c][k] != "" : send these bytes instead of per[c][k]
	trec := make([][]int, nconn)   // trec[0][k] > 0 : a TimeMeasure recorded that many times
	for ; i < len(in.Ops) && (in.Ops[i].Op == "wire" || in.Ops[i].Op == "wirebad" || in.Ops[i].Op == "time" || in.Ops[i].Op == "wires"); i++ {
		o := in.Ops[i]
		c := o.Conn % nconn
		if o.Op == "wires" {
			for _, e := range o.expand() {
				per[c] = append(per[c], wireMeasure{e.Name, e.V, e.Host})
				trec[c] = append(trec[c], 0)
				raw[c] = append(raw[c], "")
			}
			outs = append(outs, outObs{Kind: "none"})
			continue
		}
		if o.Op == "wirebad" && c == 0 {
			panic("harness: connection 0 uses the client API and cannot carry raw bytes")
		}
		if o.Op == "time" && c != 0 {
			panic("harness: time measures use the client API, i.e. connection 0")
		}
		per[c] = append(per[c], wireMeasure{o.Name, o.V, o.Host})
		if o.Op == "time" {
			trec[c] = append(trec[c], o.Rec)
		} else {
			trec[c] = append(trec[c], 0)
		}
		r := ""
		if o.Op == "wirebad" {
			r = o.Raw
		}
		raw[c] = append(raw[c], r)
		outs = append(outs, outObs{Kind: "none"})
	}
	// Whatever keeps the measures from reaching the monitor, or the monitor from
	// finishing, is an OBSERVATION of the implementation (nothing here depends on
	// the environment: loopback, ephemeral port, private network namespace): the
	// operations that would have read the results report it instead.
	connected := false
	var rd *readers
	fail := func(why string) ([]outObs, []string) {
		transportFailed = true
		if rd != nil {
			rd.halt()
			rd = nil
		}
		if connected {
			monitor.EndAndCleanup()
		}
		w.mon.Stop()
		for len(outs) < len(in.Ops) {
			outs = append(outs, outObs{Kind: "transport", Panic: why})
		}
		return outs, notes
	}
	listenDone := make(chan error, 1)
	go func() { listenDone <- w.mon.Listen() }()
	portCh := make(chan uint16, 1)
	go func() { portCh <- w.mon.VerifSinkPort() }()
	var port uint16
	select {
	case port = <-portCh:
	case err := <-listenDone:
		return fail(fmt.Sprint("Listen returned before serving: ", err))
	case <-time.After(transportDeadline()):
		return fail("Listen did not bind a port")
	}
	addr := "127.0.0.1:" + strconv.Itoa(int(port))
	// open every connection before anything is sent: the monitor stops as soon
	// as its connection table becomes empty
	if err := monitor.ConnectSink(addr); err != nil {
		return fail("ConnectSink refused: " + err.Error())
	}
	connected = true
	conns := make([]net.Conn, nconn)
	for c := 1; c < nconn; c++ {
		cn, err := net.Dial("tcp", addr)
		if err != nil {
			return fail("connection refused: " + err.Error())
		}
		conns[c] = cn
	}
	deadline := time.Now().Add(transportDeadline())
	for w.mon.VerifConns() < nconn {
		if time.Now().After(deadline) {
			return fail(fmt.Sprintf("only %d of %d reporting connections registered", w.mon.VerifConns(), nconn))
		}
		time.Sleep(time.Millisecond)
	}
	if in.Readers > 0 {
		rd = w.startReaders(in.Readers, bucketIdx(in))
	}
	done := make(chan string, nconn)
	go func() {
		for k, m := range per[0] {
			if trec[0][k] > 0 {
				var tm *monitor.TimeMeasure
				if m.Host == monitor.InvalidHostIndex {
					tm = monitor.NewTimeMeasure(m.Name)
				} else {
					tm = monitor.NewTimeMeasureWithHost(m.Name, m.Host)
				}
				for r := 0; r < trec[0][k]; r++ {
					tm.Record()
				}
				continue
			}
			monitor.RecordSingleMeasureWithHost(m.Name, m.Value, m.Host)
		}
		monitor.EndAndCleanup()
		done <- ""
	}()
	connected = false // connection 0 is closed by its own goroutine
	for c := 1; c < nconn; c++ {
		go func(c int) {
			enc := json.NewEncoder(conns[c])
			note := ""
			for k, m := range per[c] {
				var err error
				if raw[c][k] != "" {
					_, err = conns[c].Write([]byte(raw[c][k]))
				} else {
					err = enc.Encode(m)
				}
				if err != nil && note == "" {
					// not a reason to drop the case: what is missing shows in the counts
					note = fmt.Sprintf("connection %d: write %d failed: %v", c, k, err)
				}
			}
			conns[c].Close()
			done <- note
		}(c)
	}
	for c := 0; c < nconn; c++ {
		select {
		case n := <-done:
			if n != "" {
				notes = append(notes, n)
			}
		case <-time.After(transportDeadline()):
			return fail("the reporting connections could not deliver their measures")
		}
	}
	select {
	case <-listenDone:
	case <-time.After(transportDeadline()):
		return fail("Listen did not return after every reporting connection was closed")
	}
	if rd != nil {
		if crash, blocked := rd.halt(); crash != "" || blocked {
			k := "crash"
			if crash == "" {
				k = "deadlock"
			}
			for len(outs) < len(in.Ops) {
				outs = append(outs, outObs{Kind: k, Panic: "concurrent reader: " + crash})
			}
			return outs, notes
		}
	}
	for ; i < len(in.Ops); i++ {
		outs = append(outs, w.guarded(in.Ops[i]))
	}
	return outs, notes
}

// readers: n goroutines looping on the read-out entry points of the global
// result set and of the buckets until stopped. A panic of the code under test in
// a reader is reported through the returned channel.
type readers struct {
	stop    chan struct{}
	stopped chan string
	n       int
}

func (w *world) startReaders(n int, bidx []int) *readers {
	r := &readers{stop: make(chan struct{}), stopped: make(chan string, n), n: n}
	for k := 0; k < n; k++ {
		go func(k int) {
			msg := ""
			defer func() {
				if p := recover(); p != nil {
					msg = fmt.Sprint(p)
				}
				r.stopped <- msg
			}()
			for it := 0; ; it++ {
				select {
				case <-r.stop:
					return
				default:
				}
				switch (k + it) % 4 {
				case 0:
					_ = w.objs[0].String()
				case 1:
					w.objs[0].Collect()
				case 2:
					w.objs[0].WriteValues(ioutil.Discard)
				default:
					if len(bidx) > 0 {
						if s := w.mon.VerifBucket(bidx[it%len(bidx)]); s != nil {
							_ = s.String()
						}
					} else {
						w.objs[0].Collect()
					}
				}
			}
		}(k)
	}
	return r
}

// halt stops the readers; "" when all returned, else what went wrong
func (r *readers) halt() (crash string, blocked bool) {
	close(r.stop)
	for k := 0; k < r.n; k++ {
		select {
		case m := <-r.stopped:
			if m != "" {
				crash = m
			}
		case <-time.After(blockDeadline):
			return crash, true
		}
	}
	return crash, false
}

func bucketIdx(in input) []int {
	var l []int
	for _, o := range in.Ops {
		if o.Op == "bucket" {
			l = append(l, o.Idx)
		}
	}
	return l
}

func isRecording(op string) bool {
	return op == "measure" || op == "measures" || op == "direct"
}

// ---- the simulation driver itself: simul.RunTest (simul/build.go) creates the
// global result set and one per `buckets` entry of the run configuration, binds
// them to the monitor, starts it, runs the platform and returns the result sets
// in the order global, bucket 0, bucket 1, ...  The platform here is a fake one
// whose Start plays the hosts: it connects to that monitor through the client
// API of measure.go and reports the measures of the case.

type fakePlatform struct {
	port     int
	measures []wireMeasure
}

func (f *fakePlatform) Configure(*platform.Config)              {}
func (f *fakePlatform) Build(build string, arg ...string) error { return nil }
func (f *fakePlatform) Cleanup() error                          { return nil }
func (f *fakePlatform) Deploy(*platform.RunConfig) error        { return nil }
func (f *fakePlatform) Start(args ...string) error {
	addr := "127.0.0.1:" + strconv.Itoa(f.port)
	var err error
	deadline := time.Now().Add(transportDeadline())
	for {
		if err = monitor.ConnectSink(addr); err == nil || time.Now().After(deadline) {
			break
		}
		time.Sleep(2 * time.Millisecond)
	}
	if err != nil {
		return err
	}
	for _, m := range f.measures {
		monitor.RecordSingleMeasureWithHost(m.Name, m.Value, m.Host)
	}
	monitor.EndAndCleanup()
	return nil
}

// Wait returns once the monitor has closed its listener, i.e. has finished with
// its last connection (every measure is processed before that).
func (f *fakePlatform) Wait() error {
	deadline := time.Now().Add(transportDeadline())
	for time.Now().Before(deadline) {
		c, err := net.Dial("tcp", "127.0.0.1:"+strconv.Itoa(f.port))
		if err != nil {
			return nil
		}
		c.Close()
		time.Sleep(2 * time.Millisecond)
	}
	return fmt.Errorf("the monitor did not finish")
}

// runConfig of a runtest case; the static fields in the order NewStats(rc,
// "hosts", "bf") lists them: the two defaults, then the others sorted
func runTestConfig(in input) (*platform.RunConfig, [][2]string) {
	var bs []string
	for _, o := range in.Ops {
		if o.Op == "bucket" {
			bs = append(bs, strings.Join(o.Rules, "-"))
		}
	}
	rc := platform.NewRunConfig()
	rc.Put("hosts", "8")
	rc.Put("bf", "2")
	rc.Put("depth", "3")
	st := [][2]string{{"hosts", "8"}, {"bf", "2"}}
	if len(bs) > 0 {
		rc.Put("buckets", strings.Join(bs, " "))
		st = append(st, [2]string{"buckets", strings.Join(bs, " ")})
	}
	st = append(st, [2]string{"depth", "3"})
	return rc, st
}

func runRunTest(in input) (outs []outObs) {
	rc, st := runTestConfig(in)
	ln, err := net.Listen("tcp", "127.0.0.1:0")
	if err != nil {
		panic("harness: no free port")
	}
	port := ln.Addr().(*net.TCPAddr).Port
	ln.Close()
	if err := flag.Set("mport", strconv.Itoa(port)); err != nil {
		panic("harness: simul has no -mport flag any more: " + err.Error())
	}
	fp := &fakePlatform{port: port}
	i := 0
	for ; i < len(in.Ops) && (in.Ops[i].Op == "bucket" || in.Ops[i].Op == "wire"); i++ {
		if o := in.Ops[i]; o.Op == "wire" {
			fp.measures = append(fp.measures, wireMeasure{o.Name, o.V, o.Host})
		} else if o.Idx != len(outs) || i != o.Idx {
			panic("harness: runtest buckets must come first and be numbered 0,1,2,...")
		}
		outs = append(outs, outObs{Kind: "none"})
	}
	type res struct {
		stats []*monitor.Stats
		err   string
	}
	ch := make(chan res, 1)
	go func() {
		defer func() {
			if p := recover(); p != nil {
				ch <- res{nil, "panic: " + fmt.Sprint(p)}
			}
		}()
		stats, err := simul.RunTest(fp, rc)
		if err != nil {
			ch <- res{nil, err.Error()}
			return
		}
		ch <- res{stats, ""}
	}()
	var r res
	select {
	case r = <-ch:
	case <-time.After(3 * transportDeadline()):
		r = res{nil, "RunTest did not return"}
	}
	if r.err != "" {
		transportFailed = true
		for len(outs) < len(in.Ops) {
			outs = append(outs, outObs{Kind: "transport", Panic: "simul.RunTest: " + r.err})
		}
		return outs
	}
	w := &world{rc: rc.Map(), nstatic: len(st), objs: r.stats}
	for ; i < len(in.Ops); i++ {
		o := in.Ops[i]
		if o.Op != "header" && o.Op != "values" && o.Op != "string" && o.Op != "collect" {
			panic("harness: runtest cases read the returned result sets only")
		}
		if o.Obj >= len(w.objs) {
			// RunTest returned fewer result sets than global + buckets
			outs = append(outs, outObs{Kind: "values", Fields: []string{}, Rows: []snapObs{{Name: "<result set not returned>"}}})
			continue
		}
		x := w.guarded(o)
		outs = append(outs, x)
		if x.Kind == "crash" || x.Kind == "deadlock" {
			break
		}
	}
	return outs
}

func runAPI(in input) []outObs {
	w := newWorld(in)
	var outs []outObs
	var rd *readers
	for i, o := range in.Ops {
		if in.Readers > 0 && rd == nil && isRecording(o.Op) {
			rd = w.startReaders(in.Readers, bucketIdx(in))
		}
		var r outObs
		if o.Op == "measures" {
			// the block, recorded Rec times, in this goroutine (the readers run meanwhile)
			r = func() (res outObs) {
				defer func() {
					if p := recover(); p != nil {
						res = outObs{Kind: "crash", Panic: fmt.Sprint(p)}
					}
				}()
				for k := 0; k < o.Rec; k++ {
					for _, v := range o.Vals {
						w.mon.VerifUpdate(o.Name, v, o.Host)
					}
				}
				return outObs{Kind: "none"}
			}()
		} else {
			if rd != nil && !isRecording(o.Op) {
				// recording is over: the readers are stopped before the listed read-outs
				crash, blocked := rd.halt()
				rd = nil
				if crash != "" || blocked {
					k := "crash"
					if crash == "" {
						k = "deadlock"
					}
					outs = append(outs, outObs{Kind: k, Panic: "concurrent reader: " + crash})
					break
				}
			}
			r = w.guarded(o)
		}
		_ = i
		outs = append(outs, r)
		if r.Kind == "crash" || r.Kind == "deadlock" {
			break
		}
	}
	if rd != nil {
		rd.halt()
	}
	return outs
}

// ---------------------------------------------------------------- classification
// Which known defect of the pinned code can show in this history (part of the
// case class, so that known-finding signatures name exactly that situation).

func classify(in input) (reread, negmax bool) {
	type sobj struct {
		store map[string][]float64
		stale map[string]bool // a Collect ran while the store of this measure was non-empty
	}
	mk := func() *sobj { return &sobj{map[string][]float64{}, map[string]bool{}} }
	objs := []*sobj{mk()}
	type bk struct {
		rules [][2]int
		obj   int
	}
	bks := map[int]*bk{}
	collect := func(s *sobj) {
		for k, v := range s.store {
			if len(v) > 0 {
				s.stale[k] = true
			}
		}
	}
	observe := func(s *sobj) {
		for k, v := range s.store {
			if len(v) == 0 {
				continue
			}
			if s.stale[k] {
				reread = true
			}
			neg := true
			for _, x := range v {
				if x >= 0 {
					neg = false
				}
			}
			if neg {
				negmax = true
			}
		}
		collect(s)
	}
	var flat []opIn
	for _, o := range in.Ops {
		flat = append(flat, o.expand()...)
	}
	for _, o := range flat {
		switch o.Op {
		case "new":
			objs = append(objs, mk())
		case "bucket":
			objs = append(objs, mk())
			b := &bk{obj: len(objs) - 1}
			ok := true
			for _, r := range o.Rules {
				p := strings.Split(r, ":")
				if len(p) != 2 {
					ok = false
					break
				}
				lo, e1 := strconv.Atoi(p[0])
				hi, e2 := strconv.Atoi(p[1])
				if e1 != nil || e2 != nil {
					ok = false
					break
				}
				b.rules = append(b.rules, [2]int{lo, hi})
			}
			if old, has := bks[o.Idx]; has && !ok {
				b.obj = old.obj
			}
			bks[o.Idx] = b
		case "time":
			continue // values unknown, count-only cases
		case "wire", "measure":
			if o.Op == "wire" && strings.ToLower(o.Name) == "end" {
				continue
			}
			objs[0].store[o.Name] = append(objs[0].store[o.Name], o.V)
			for _, b := range bks {
				m := false
				for _, r := range b.rules {
					if o.Host >= 0 && o.Host >= r[0] && o.Host < r[1] {
						m = true
					}
				}
				if m {
					objs[b.obj].store[o.Name] = append(objs[b.obj].store[o.Name], o.V)
				}
			}
		case "direct":
			if o.Obj < len(objs) {
				objs[o.Obj].store[o.Name] = append(objs[o.Obj].store[o.Name], o.V)
			}
		case "collect", "string":
			if o.Obj < len(objs) {
				collect(objs[o.Obj])
			}
		case "values":
			if o.Obj < len(objs) {
				observe(objs[o.Obj])
			}
		case "get":
			if b, ok := bks[o.Idx]; ok {
				observe(objs[b.obj])
			}
		case "average":
			n := mk()
			if len(o.Srcs) > 0 && o.Srcs[0] < len(objs) {
				for k := range objs[o.Srcs[0]].store {
					for _, i := range o.Srcs {
						if i < len(objs) {
							n.store[k] = append(n.store[k], objs[i].store[k]...)
						}
					}
				}
			}
			objs = append(objs, n)
		}
	}
	return
}

func run(raw json.RawMessage) lib.Case {
	var in input
	if err := json.Unmarshal(raw, &in); err != nil {
		panic(err)
	}
	sort.Slice(in.Statics, func(i, j int) bool { return in.Statics[i][0] < in.Statics[j][0] })
	var outs []outObs
	var notes []string
	if in.Mode == "runtest" {
		_, in.Statics = runTestConfig(in)
		outs = runRunTest(in)
	} else if in.Mode == "tcp" {
		outs, notes = runTCP(in)
	} else {
		outs = runAPI(in)
	}
	// after a crash / a blocked operation nothing else happens
	for len(outs) < len(in.Ops) {
		outs = append(outs, outs[len(outs)-1])
	}
	class := in.Kind
	reread, negmax := classify(in)
	if reread {
		class += "+reread"
	}
	if negmax {
		class += "+negmax"
	}
	st := make([]string, len(in.Statics))
	for i, kv := range in.Statics {
		st[i] = lib.Pair(lib.Str(kv[0]), lib.Str(kv[1]))
	}
	// the operation and observation lists as Coq list expressions, long runs
	// of measures in the compact form  rep_ops n block / rep_none n len
	var ops, obs []string
	var opSegs, obSegs []string
	flush := func() {
		if len(ops) > 0 {
			opSegs = append(opSegs, lib.List(ops))
			obSegs = append(obSegs, lib.List(obs))
			ops, obs = nil, nil
		}
	}
	human := []interface{}{}
	nontrivial := false
	failed := false
	for i, o := range in.Ops {
		if seg, none, ok := o.coqSeg(); ok {
			flush()
			opSegs = append(opSegs, seg)
			if outs[i].Kind == "none" {
				obSegs = append(obSegs, none)
			} else {
				obSegs = append(obSegs, lib.App("repeat", outs[i].coq(), fmt.Sprintf("(%d * %d)", o.Rec, len(o.Vals))))
			}
		} else {
			l := o.coqOps()
			ops = append(ops, l...)
			obs = append(obs, outs[i].coq())
			for k := 1; k < len(l); k++ {
				obs = append(obs, "ObsNone")
			}
		}
		if outs[i].Kind != "none" && !failed {
			human = append(human, map[string]interface{}{"op": i, "kind": o.Op, "out": outs[i].human()})
			// the entries after a crash / a blocked operation only repeat it
			failed = outs[i].Kind == "crash" || outs[i].Kind == "deadlock" || outs[i].Kind == "transport"
		}
		if len(outs[i].Rows) > 0 {
			nontrivial = true
		}
	}
	for _, n := range notes {
		human = append(human, map[string]interface{}{"harness_note": n})
	}
	flush()
	ctor := "Case"
	if in.CountOnly {
		ctor = "CaseN"
	}
	return lib.Case{
		Coq:        lib.App(ctor, lib.List(st), joinSegs(opSegs), joinSegs(obSegs)),
		Class:      class,
		Obs:        human,
		Nontrivial: nontrivial,
	}
}

func joinSegs(segs []string) string {
	if len(segs) == 0 {
		return "[]"
	}
	if len(segs) == 1 {
		return segs[0]
	}
	return "(" + strings.Join(segs, " ++ ") + ")%list"
}

// ---------------------------------------------------------------- generator

var names = []string{"round", "setup", "verify_wall", "bandwidth_tx", "a", "A", "b_user", "Zz", "end_", "END1"}

func genValue(rng *rand.Rand, kind int) float64 {
	switch kind {
	case 0: // small integers, both signs
		return float64(rng.Intn(101) - 50)
	case 1: // times: k/1024
		return float64(rng.Intn(1<<20)) / 1024
	case 2: // all negative
		return -float64(1+rng.Intn(1<<16)) / 64
	case 3: // a constant
		return 7.25
	case 4: // zero
		return 0
	case 5: // wide dyadic range
		return float64(rng.Intn(2001)-1000) * math.Pow(2, float64(rng.Intn(41)-20))
	case 6: // decimals (not dyadic)
		return float64(rng.Intn(20001)-10000) / 100
	case 7: // large offset, small spread
		return 1e6 + float64(rng.Intn(1000))/8
	default: // non-negative integers (byte counts)
		return float64(rng.Intn(1 << 24))
	}
}

func genRules(rng *rand.Rand) []string {
	n := 1 + rng.Intn(3)
	var rs []string
	for i := 0; i < n; i++ {
		lo := rng.Intn(12) - 1
		hi := lo + rng.Intn(6) - 1
		s := fmt.Sprintf("%d:%d", lo, hi)
		if rng.Intn(12) == 0 {
			s = fmt.Sprintf("+%d:%d", lo+1, hi+1)
		}
		rs = append(rs, s)
	}
	return rs
}

var badRules = []string{"", "5", "a:b", "1:2:3", "1:", ":3", " 1:2", "1 :2", "1_0:20", "99999999999999999999:5",
	"0x10:20", "3:-", "--1:4", "1.5:3", "2:1e1", "9223372036854775807:9223372036854775808", "::", "7;9"}

func statics(rng *rand.Rand) [][2]string {
	switch rng.Intn(3) {
	case 0:
		return [][2]string{}
	case 1:
		return [][2]string{{"bf", "2"}, {"hosts", strconv.Itoa(2 + rng.Intn(30))}}
	}
	return [][2]string{{"Servers", "3"}, {"bf", "2"}, {"hosts", "8"}, {"rounds", "10"}}
}

// measures of a few names; nvals values per name
func genMeasures(rng *rand.Rand, op string, nnames, maxvals int) []opIn {
	var ms []opIn
	perm := rng.Perm(len(names))
	for j := 0; j < nnames; j++ {
		name := names[perm[j]]
		kind := rng.Intn(9)
		n := 1 + rng.Intn(maxvals)
		if rng.Intn(6) == 0 {
			n = 1 + rng.Intn(2)
		}
		for k := 0; k < n; k++ {
			ms = append(ms, opIn{Op: op, Name: name, V: genValue(rng, kind), Host: rng.Intn(14) - 1})
		}
	}
	rng.Shuffle(len(ms), func(a, b int) { ms[a], ms[b] = ms[b], ms[a] })
	return ms
}

func finalReads(nb int, bidx []int, rng *rand.Rand) []opIn {
	ops := []opIn{{Op: "header", Obj: 0}, {Op: "values", Obj: 0}}
	for b := 0; b < nb; b++ {
		if rng.Intn(2) == 0 {
			ops = append(ops, opIn{Op: "header", Obj: 1 + b}, opIn{Op: "values", Obj: 1 + b})
		} else {
			ops = append(ops, opIn{Op: "get", Idx: bidx[b]})
		}
	}
	return ops
}

func randomReadout(rng *rand.Rand, nobj int, bidx []int) opIn {
	switch rng.Intn(6) {
	case 0:
		return opIn{Op: "collect", Obj: rng.Intn(nobj)}
	case 1:
		return opIn{Op: "string", Obj: rng.Intn(nobj)}
	case 2:
		return opIn{Op: "header", Obj: rng.Intn(nobj)}
	case 3, 4:
		return opIn{Op: "values", Obj: rng.Intn(nobj)}
	}
	if len(bidx) > 0 {
		return opIn{Op: "get", Idx: bidx[rng.Intn(len(bidx))]}
	}
	return opIn{Op: "values", Obj: 0}
}

func genBuckets(rng *rand.Rand, max int) (ops []opIn, bidx []int) {
	nb := rng.Intn(max + 1)
	for b := 0; b < nb; b++ {
		idx := b
		if rng.Intn(5) == 0 {
			idx = b + 10
		}
		bidx = append(bidx, idx)
		ops = append(ops, opIn{Op: "bucket", Idx: idx, Rules: genRules(rng)})
	}
	return
}

// one result per object, read once: no defect of the pinned code except a
// negative maximum can show
func genBasic(rng *rand.Rand, big bool) input {
	in := input{Kind: "api", Mode: "api", Statics: statics(rng)}
	bops, bidx := genBuckets(rng, 3)
	in.Ops = append(in.Ops, bops...)
	maxv := 30
	if big {
		maxv = 500
	}
	in.Ops = append(in.Ops, genMeasures(rng, "measure", 1+rng.Intn(3), maxv)...)
	in.Ops = append(in.Ops, finalReads(len(bidx), bidx, rng)...)
	return in
}

// measures interleaved with arbitrary read-out operations
func genReread(rng *rand.Rand) input {
	in := input{Kind: "api", Mode: "api", Statics: statics(rng)}
	bops, bidx := genBuckets(rng, 2)
	in.Ops = append(in.Ops, bops...)
	ms := genMeasures(rng, "measure", 1+rng.Intn(3), 12)
	nobj := 1 + len(bidx)
	for _, m := range ms {
		in.Ops = append(in.Ops, m)
		if rng.Intn(6) == 0 {
			in.Ops = append(in.Ops, randomReadout(rng, nobj, bidx))
		}
	}
	for k := rng.Intn(4); k > 0; k-- {
		in.Ops = append(in.Ops, randomReadout(rng, nobj, bidx))
	}
	in.Ops = append(in.Ops, finalReads(len(bidx), bidx, rng)...)
	return in
}

// AverageStats over result sets holding the same measures
func genAverage(rng *rand.Rand, sameKeys bool) input {
	in := input{Kind: "avg", Mode: "api", Statics: statics(rng)}
	if !sameKeys {
		in.Kind = "avg-missing"
	}
	nsets := 2 + rng.Intn(4)
	nn := 1 + rng.Intn(3)
	perm := rng.Perm(len(names))
	var srcs []int
	for s := 0; s < nsets; s++ {
		in.Ops = append(in.Ops, opIn{Op: "new"})
		obj := 1 + s
		srcs = append(srcs, obj)
		var ms []opIn
		for j := 0; j < nn; j++ {
			if !sameKeys && rng.Intn(3) == 0 {
				continue
			}
			kind := rng.Intn(9)
			for k := 1 + rng.Intn(8); k > 0; k-- {
				ms = append(ms, opIn{Op: "direct", Obj: obj, Name: names[perm[j]], V: genValue(rng, kind)})
			}
		}
		if !sameKeys && rng.Intn(3) == 0 {
			ms = append(ms, opIn{Op: "direct", Obj: obj, Name: "extra" + strconv.Itoa(s), V: genValue(rng, 0)})
		}
		rng.Shuffle(len(ms), func(a, b int) { ms[a], ms[b] = ms[b], ms[a] })
		in.Ops = append(in.Ops, ms...)
		if rng.Intn(4) == 0 { // a source that was already read
			in.Ops = append(in.Ops, opIn{Op: "values", Obj: obj})
		}
	}
	if rng.Intn(4) == 0 {
		srcs = append(srcs, srcs[rng.Intn(len(srcs))]) // the same set twice
	}
	avg := 1 + nsets
	in.Ops = append(in.Ops, opIn{Op: "average", Srcs: srcs})
	in.Ops = append(in.Ops, opIn{Op: "header", Obj: avg}, opIn{Op: "values", Obj: avg})
	if rng.Intn(3) == 0 {
		in.Ops = append(in.Ops, opIn{Op: "string", Obj: avg}, opIn{Op: "values", Obj: avg})
	}
	if rng.Intn(2) == 0 { // sources stay usable
		in.Ops = append(in.Ops, opIn{Op: "values", Obj: srcs[rng.Intn(len(srcs))]})
	}
	if rng.Intn(3) == 0 { // average of averages
		in.Ops = append(in.Ops, opIn{Op: "average", Srcs: []int{avg, avg}}, opIn{Op: "values", Obj: avg + 1})
	}
	return in
}

func genBadRule(rng *rand.Rand) input {
	in := input{Kind: "badrule", Mode: "api", Statics: statics(rng)}
	rules := genRules(rng)
	pos := rng.Intn(len(rules) + 1)
	bad := badRules[rng.Intn(len(badRules))]
	rules = append(rules[:pos:pos], append([]string{bad}, rules[pos:]...)...)
	if rng.Intn(2) == 0 {
		in.Ops = append(in.Ops, opIn{Op: "bucket", Idx: 1, Rules: genRules(rng)})
	}
	if rng.Intn(3) == 0 { // a well-formed bucket replaced by a malformed specification
		in.Ops = append(in.Ops, opIn{Op: "bucket", Idx: 0, Rules: genRules(rng)})
	}
	in.Ops = append(in.Ops, opIn{Op: "bucket", Idx: 0, Rules: rules})
	in.Ops = append(in.Ops, genMeasures(rng, "measure", 1, 6)...)
	in.Ops = append(in.Ops, opIn{Op: "values", Obj: 0}, opIn{Op: "get", Idx: 0}, opIn{Op: "get", Idx: 1})
	return in
}

// measures as JSON over real TCP connections to a listening Monitor
func genTCP(rng *rand.Rand, maxvals int, reread bool) input {
	in := input{Kind: "tcp", Mode: "tcp", Statics: statics(rng), Conns: 1 + rng.Intn(8)}
	bops, bidx := genBuckets(rng, 3)
	in.Ops = append(in.Ops, bops...)
	ms := genMeasures(rng, "wire", 1+rng.Intn(3), maxvals)
	if rng.Intn(3) == 0 { // control-message names are not measures
		for _, n := range []string{"end", "END", "End"} {
			if rng.Intn(2) == 0 {
				ms = append(ms, opIn{Op: "wire", Name: n, V: 1, Host: rng.Intn(4)})
			}
		}
		rng.Shuffle(len(ms), func(a, b int) { ms[a], ms[b] = ms[b], ms[a] })
	}
	for i := range ms {
		ms[i].Conn = rng.Intn(in.Conns)
	}
	// the model is fed the measures connection by connection; by the
	// order/partition theorem the exact statistics do not depend on this choice
	sort.SliceStable(ms, func(a, b int) bool { return ms[a].Conn < ms[b].Conn })
	in.Ops = append(in.Ops, ms...)
	if reread {
		for k := 1 + rng.Intn(3); k > 0; k-- {
			in.Ops = append(in.Ops, randomReadout(rng, 1+len(bidx), bidx))
		}
	}
	in.Ops = append(in.Ops, finalReads(len(bidx), bidx, rng)...)
	return in
}

// one undecodable message on some raw connections (a host dying mid-message,
// a wrong type, garbage): at most one per connection, so the connection's
// error budget (the handler gives up at the second error) is never the issue
func genTCPGarbage(rng *rand.Rand) input {
	in := genTCP(rng, 10, false)
	in.Kind = "tcp-garbage"
	if in.Conns < 2 {
		in.Conns = 2
	}
	var pre, wires, post []opIn
	for _, o := range in.Ops {
		switch {
		case o.Op == "wire":
			o.Conn = rng.Intn(in.Conns)
			wires = append(wires, o)
		case len(wires) == 0:
			pre = append(pre, o)
		default:
			post = append(post, o)
		}
	}
	per := make([][]opIn, in.Conns)
	for _, o := range wires {
		per[o.Conn] = append(per[o.Conn], o)
	}
	nbad := 1 + rng.Intn(2)
	for b := 0; b < nbad; b++ {
		c := 1 + rng.Intn(in.Conns-1)
		has := false
		for _, o := range per[c] {
			if o.Op == "wirebad" {
				has = true
			}
		}
		if has {
			continue
		}
		name := names[rng.Intn(4)]
		host := rng.Intn(6)
		v := float64(rng.Intn(64)) / 4
		bad := opIn{Op: "wirebad", Conn: c}
		last := false
		switch rng.Intn(6) {
		case 0:
			bad.Raw, bad.Name, bad.V, bad.Host = fmt.Sprintf("{\"Name\":5,\"Value\":%v,\"Host\":%d}\n", v, host), "", v, host
		case 1:
			bad.Raw, bad.Name, bad.V, bad.Host = fmt.Sprintf("{\"Name\":%q,\"Value\":\"x\",\"Host\":%d}\n", name, host), name, 0, host
		case 2:
			bad.Raw, bad.Name, bad.V, bad.Host = fmt.Sprintf("{\"Name\":%q,\"Value\":1e400,\"Host\":%d}\n", name, host), name, 0, host
		case 3:
			bad.Raw = "[1,2]\n"
		case 4:
			bad.Raw, last = "GARBAGE\n", true
		default:
			bad.Raw, last = fmt.Sprintf("{\"Name\":%q,\"Val", name), true
		}
		if last {
			per[c] = append(per[c], bad)
		} else {
			pos := rng.Intn(len(per[c]) + 1)
			per[c] = append(per[c][:pos:pos], append([]opIn{bad}, per[c][pos:]...)...)
		}
	}
	in.Ops = pre
	for c := range per {
		in.Ops = append(in.Ops, per[c]...)
	}
	in.Ops = append(in.Ops, post...)
	return in
}

// sources of an average that are used again afterwards -- averaged again
// (first or later position), updated, read -- and the EARLIER average read
// after that: the averaged set must keep the values it was built from.
// Sizes are chosen so that Go slices have spare capacity (3, 5..7, 9..15).
// Measures recorded into a source after averaging use names it already has.
func genAvgReuse(rng *rand.Rand) input {
	in := input{Kind: "avg-reuse", Mode: "api", Statics: statics(rng)}
	nn := 1 + rng.Intn(2)
	perm := rng.Perm(len(names))
	big := []int{3, 5, 6, 7, 9, 10, 11, 12, 13}
	nsrc := 3 + rng.Intn(2)
	kinds := make([]int, nn)
	for j := range kinds {
		kinds[j] = rng.Intn(9)
	}
	for s := 0; s < nsrc; s++ {
		in.Ops = append(in.Ops, opIn{Op: "new"})
		for j := 0; j < nn; j++ {
			n := 1 + rng.Intn(3)
			if s == 0 || rng.Intn(4) == 0 {
				n = big[rng.Intn(len(big))]
			}
			for k := 0; k < n; k++ {
				in.Ops = append(in.Ops, opIn{Op: "direct", Obj: 1 + s, Name: names[perm[j]], V: genValue(rng, kinds[j])})
			}
		}
	}
	nobj := 1 + nsrc
	var avgs []int
	pick := func() int { return 1 + rng.Intn(nsrc) }
	average := func(first int) {
		srcs := []int{first}
		for k := 1 + rng.Intn(2); k > 0; k-- {
			srcs = append(srcs, pick())
		}
		in.Ops = append(in.Ops, opIn{Op: "average", Srcs: srcs})
		avgs = append(avgs, nobj)
		nobj++
	}
	average(1)
	for step := 2 + rng.Intn(4); step > 0; step-- {
		switch rng.Intn(5) {
		case 0, 1: // another average, mostly starting with the same first set
			if rng.Intn(3) > 0 {
				average(1)
			} else {
				average(pick())
			}
		case 2, 3: // one more measure stored into a source
			obj := 1
			if rng.Intn(3) == 0 {
				obj = pick()
			}
			j := rng.Intn(nn)
			in.Ops = append(in.Ops, opIn{Op: "direct", Obj: obj, Name: names[perm[j]], V: genValue(rng, kinds[j])})
		default: // a source or an average is read
			if rng.Intn(2) == 0 {
				in.Ops = append(in.Ops, opIn{Op: "values", Obj: pick()})
			} else {
				in.Ops = append(in.Ops, opIn{Op: "values", Obj: avgs[rng.Intn(len(avgs))]})
			}
		}
	}
	// every average, earliest first, then the sources
	for _, a := range avgs {
		in.Ops = append(in.Ops, opIn{Op: "header", Obj: a}, opIn{Op: "values", Obj: a})
	}
	in.Ops = append(in.Ops, opIn{Op: "values", Obj: 1})
	return in
}

// host-bound time measures of the real client API (NewTimeMeasureWithHost /
// NewTimeMeasure, Record) with buckets configured: every Record must put one
// _wall, one _system and one _user value into the global set and into the
// buckets of its host. Values are CPU / wall times: counts and membership only.
func genTCPTime(rng *rand.Rand) input {
	in := input{Kind: "tcp-time", Mode: "tcp", Statics: statics(rng), Conns: 1 + rng.Intn(3), CountOnly: true}
	nb := 1 + rng.Intn(3)
	var bidx []int
	for b := 0; b < nb; b++ {
		lo := rng.Intn(4)
		rules := []string{fmt.Sprintf("%d:%d", lo, lo+1+rng.Intn(3))}
		if rng.Intn(3) == 0 {
			rules = append(rules, fmt.Sprintf("%d:%d", 5, 6))
		}
		in.Ops = append(in.Ops, opIn{Op: "bucket", Idx: b, Rules: rules})
		bidx = append(bidx, b)
	}
	tnames := []string{"round", "setup"}
	var c0 []opIn
	for k := 2 + rng.Intn(4); k > 0; k-- {
		c0 = append(c0, opIn{Op: "time", Name: tnames[rng.Intn(2)], Host: rng.Intn(7) - 1, Rec: 1 + rng.Intn(3), Conn: 0})
		if rng.Intn(3) == 0 {
			c0 = append(c0, opIn{Op: "wire", Name: "bandwidth_tx", V: genValue(rng, 8), Host: rng.Intn(7) - 1, Conn: 0})
		}
	}
	in.Ops = append(in.Ops, c0...)
	if in.Conns > 1 {
		ms := genMeasures(rng, "wire", 1, 6)
		for i := range ms {
			// known values: keep their names apart from the _wall/_system/_user ones
			ms[i].Name = strings.NewReplacer("_wall", "_w", "_user", "_u").Replace(ms[i].Name)
			ms[i].Conn = 1 + rng.Intn(in.Conns-1)
			ms[i].Host = rng.Intn(7) - 1
		}
		sort.SliceStable(ms, func(a, b int) bool { return ms[a].Conn < ms[b].Conn })
		in.Ops = append(in.Ops, ms...)
	}
	in.Ops = append(in.Ops, opIn{Op: "header", Obj: 0}, opIn{Op: "values", Obj: 0})
	for b := 0; b < nb; b++ {
		if rng.Intn(2) == 0 {
			in.Ops = append(in.Ops, opIn{Op: "header", Obj: 1 + b}, opIn{Op: "values", Obj: 1 + b})
		} else {
			in.Ops = append(in.Ops, opIn{Op: "get", Idx: bidx[b]})
		}
	}
	return in
}

// Read-outs running CONCURRENTLY with the recording: reader goroutines loop on
// String / Collect / WriteValues / bucket Get while a few thousand measures are
// recorded (directly through Monitor.update, or as JSON over TCP connections);
// then the readers are stopped and the result sets are written. Nothing
// recorded may be missing: the written statistics are those of ALL measures.
func genConcurrent(rng *rand.Rand, tcp bool) input {
	in := input{Kind: "concurrent", Mode: "api", Statics: statics(rng), Readers: 2 + rng.Intn(3)}
	one := "measures"
	if tcp {
		in.Kind, in.Mode, one = "tcp-concurrent", "tcp", "wires"
		in.Conns = 2 + rng.Intn(3)
	}
	var bidx []int
	for b := rng.Intn(3); b > 0; b-- {
		lo := rng.Intn(3)
		in.Ops = append(in.Ops, opIn{Op: "bucket", Idx: len(bidx), Rules: []string{fmt.Sprintf("%d:%d", lo, lo+1+rng.Intn(3))}})
		bidx = append(bidx, len(bidx))
	}
	nn := 1 + rng.Intn(2)
	perm := rng.Perm(len(names))
	total := 2200 + rng.Intn(800)
	nblk := 2 + rng.Intn(3)
	if tcp {
		nblk = in.Conns + rng.Intn(2)
	}
	var blocks []opIn
	for b := 0; b < nblk; b++ {
		kind := []int{0, 1, 2, 8}[rng.Intn(4)] // short mantissas keep the exact arithmetic cheap
		vals := make([]float64, 4+rng.Intn(5))
		for i := range vals {
			vals[i] = genValue(rng, kind)
		}
		name := names[perm[b%nn]]
		if tcp && strings.HasPrefix(strings.ToLower(name), "end") {
			name = "x" + name
		}
		blocks = append(blocks, opIn{Op: one, Name: name, Host: rng.Intn(5) - 1, Vals: vals,
			Rec: total / nblk / len(vals), Conn: b % maxInt(in.Conns, 1)})
	}
	if tcp {
		sort.SliceStable(blocks, func(a, b int) bool { return blocks[a].Conn < blocks[b].Conn })
	}
	in.Ops = append(in.Ops, blocks...)
	in.Ops = append(in.Ops, finalReads(len(bidx), bidx, rng)...)
	return in
}

func maxInt(a, b int) int {
	if a > b {
		return a
	}
	return b
}

// the simulation driver: simul.RunTest with a `buckets` run configuration and
// hosts reporting with a host index; every returned result set is written
func genRunTest(rng *rand.Rand) input {
	in := input{Kind: "runtest", Mode: "runtest", Conns: 1}
	nb := rng.Intn(4)
	for b := 0; b < nb; b++ {
		var rules []string
		for k := 1 + rng.Intn(2); k > 0; k-- {
			lo := rng.Intn(6)
			rules = append(rules, fmt.Sprintf("%d:%d", lo, lo+1+rng.Intn(3)))
		}
		in.Ops = append(in.Ops, opIn{Op: "bucket", Idx: b, Rules: rules})
	}
	ms := genMeasures(rng, "wire", 1+rng.Intn(2), 10)
	for i := range ms {
		ms[i].Host = rng.Intn(8) - 1
		if strings.HasPrefix(strings.ToLower(ms[i].Name), "end") {
			ms[i].Name = "x" + ms[i].Name
		}
	}
	in.Ops = append(in.Ops, ms...)
	for j := 0; j <= nb; j++ {
		if rng.Intn(4) == 0 {
			in.Ops = append(in.Ops, opIn{Op: "string", Obj: j}) // the driver's log line
		}
		in.Ops = append(in.Ops, opIn{Op: "header", Obj: j}, opIn{Op: "values", Obj: j})
	}
	return in
}

// every sequence of at most maxLen read-out operations before the final write
func exhaustiveReadouts(vals []float64, maxLen int) []interface{} {
	kinds := []string{"collect", "string", "header", "values"}
	var res []interface{}
	var rec func(seq []string)
	rec = func(seq []string) {
		in := input{Kind: "readouts", Mode: "api", Statics: [][2]string{{"hosts", "4"}}}
		for _, v := range vals {
			in.Ops = append(in.Ops, opIn{Op: "measure", Name: "round", V: v, Host: -1})
		}
		for _, k := range seq {
			in.Ops = append(in.Ops, opIn{Op: k, Obj: 0})
		}
		in.Ops = append(in.Ops, opIn{Op: "header", Obj: 0}, opIn{Op: "values", Obj: 0})
		res = append(res, in)
		if len(seq) < maxLen {
			for _, k := range kinds {
				rec(append(append([]string{}, seq...), k))
			}
		}
	}
	rec(nil)
	return res
}

func generate(rng *rand.Rand, tier string) []interface{} {
	scale := 1
	if tier != "quick" {
		scale = 20
	}
	var ins []interface{}
	ins = append(ins, exhaustiveReadouts([]float64{1, 2, 3, 6}, 2)...)
	if tier != "quick" {
		ins = append(ins, exhaustiveReadouts([]float64{0.5, -2, 4}, 4)...)
	}
	for i := 0; i < 170*scale; i++ {
		ins = append(ins, genBasic(rng, false))
	}
	for i := 0; i < 4*scale; i++ {
		ins = append(ins, genBasic(rng, true))
	}
	for i := 0; i < 90*scale; i++ {
		ins = append(ins, genReread(rng))
	}
	for i := 0; i < 60*scale; i++ {
		ins = append(ins, genAverage(rng, true))
	}
	for i := 0; i < 8*scale; i++ {
		ins = append(ins, genAverage(rng, false))
	}
	for i := 0; i < 30*scale; i++ {
		ins = append(ins, genBadRule(rng))
	}
	for i := 0; i < 40*scale; i++ {
		ins = append(ins, genTCP(rng, 25, i%3 == 0))
	}
	for i := 0; i < 2*scale; i++ {
		ins = append(ins, genTCP(rng, 500, false))
	}
	for i := 0; i < 16*scale; i++ {
		ins = append(ins, genTCPGarbage(rng))
	}
	for i := 0; i < 50*scale; i++ {
		ins = append(ins, genAvgReuse(rng))
	}
	for i := 0; i < 24*scale; i++ {
		ins = append(ins, genTCPTime(rng))
	}
	for i := 0; i < 14*scale; i++ {
		ins = append(ins, genRunTest(rng))
	}
	// the long concurrent histories are spread evenly over the run (and so over
	// the Coq shards, which are evaluated in parallel)
	var heavy []interface{}
	nh := 12
	if tier != "quick" {
		nh = 80
	}
	for i := 0; i < nh; i++ {
		heavy = append(heavy, genConcurrent(rng, i%2 == 1))
	}
	step := len(ins) / (len(heavy) + 1)
	var out []interface{}
	h := 0
	for i, x := range ins {
		out = append(out, x)
		if step > 0 && (i+1)%step == 0 && h < len(heavy) {
			out = append(out, heavy[h])
			h++
		}
	}
	out = append(out, heavy[h:]...)
	return out
}

// refutation witnesses and regression inputs (always run first)
func corpus() []interface{} {
	m := func(name string, v float64) opIn { return opIn{Op: "measure", Name: name, V: v, Host: -1} }
	st := [][2]string{{"bf", "2"}, {"hosts", "4"}}
	return []interface{}{
		// F21 (c19_double_collect_refuted): WriteValues, String, WriteValues
		input{Kind: "witness", Mode: "api", Statics: st, Ops: []opIn{
			m("round", 1), m("round", 2), m("round", 3), m("round", 6),
			{Op: "values", Obj: 0}, {Op: "string", Obj: 0}, {Op: "values", Obj: 0}}},
		// the simulation driver: log line (String), then header + values
		input{Kind: "witness", Mode: "api", Statics: st, Ops: []opIn{
			m("round", 1), m("round", 2), m("round", 3), m("round", 6),
			{Op: "string", Obj: 0}, {Op: "header", Obj: 0}, {Op: "values", Obj: 0}}},
		// F22 (c19_negative_max_refuted)
		input{Kind: "witness", Mode: "api", Statics: st, Ops: []opIn{
			m("delta", -5), m("delta", -2), {Op: "values", Obj: 0}}},
		// a single value: undefined deviation; read twice it becomes 0
		input{Kind: "witness", Mode: "api", Statics: st, Ops: []opIn{
			m("once", 4), {Op: "values", Obj: 0}, {Op: "values", Obj: 0}}},
		// same through a bucket
		input{Kind: "witness", Mode: "api", Statics: st, Ops: []opIn{
			{Op: "bucket", Idx: 0, Rules: []string{"0:2"}},
			{Op: "measure", Name: "round", V: 1, Host: 0}, {Op: "measure", Name: "round", V: 3, Host: 1},
			{Op: "measure", Name: "round", V: 9, Host: 2},
			{Op: "get", Idx: 0}, {Op: "values", Obj: 1}}},
		// over TCP, 3 connections
		input{Kind: "tcp", Mode: "tcp", Statics: st, Conns: 3, Ops: []opIn{
			{Op: "bucket", Idx: 0, Rules: []string{"1:3"}},
			{Op: "wire", Name: "round", V: 1, Host: 0, Conn: 0}, {Op: "wire", Name: "round", V: 2.5, Host: 1, Conn: 0},
			{Op: "wire", Name: "round", V: 4, Host: 2, Conn: 1}, {Op: "wire", Name: "End", V: 4, Host: 2, Conn: 1},
			{Op: "wire", Name: "round", V: 8, Host: 3, Conn: 2},
			{Op: "header", Obj: 0}, {Op: "values", Obj: 0}, {Op: "get", Idx: 0}}},
		// C19-N3: a host dies in the middle of a message
		input{Kind: "tcp-garbage", Mode: "tcp", Statics: st, Conns: 2, Ops: []opIn{
			{Op: "bucket", Idx: 0, Rules: []string{"0:1"}},
			{Op: "wire", Name: "round", V: 1, Host: 2, Conn: 0},
			{Op: "wire", Name: "round", V: 3, Host: 2, Conn: 1},
			{Op: "wirebad", Conn: 1, Raw: "{\"Name\":\"round\",\"Val"},
			{Op: "header", Obj: 0}, {Op: "values", Obj: 0}, {Op: "get", Idx: 0}}},
		// an average must not share memory with its first source: a second
		// average starting with the same set, then a late measure, then the
		// first average is written
		input{Kind: "avg-reuse", Mode: "api", Statics: st, Ops: avgReuseWitness()},
		runTestWitness(),
		// host-bound time measures and buckets
		input{Kind: "tcp-time", Mode: "tcp", Statics: st, Conns: 1, CountOnly: true, Ops: []opIn{
			{Op: "bucket", Idx: 0, Rules: []string{"0:1"}}, {Op: "bucket", Idx: 1, Rules: []string{"1:2"}},
			{Op: "time", Name: "round", Host: 0, Rec: 3}, {Op: "time", Name: "round", Host: 1, Rec: 1},
			{Op: "time", Name: "round", Host: -1, Rec: 1},
			{Op: "header", Obj: 0}, {Op: "values", Obj: 0}, {Op: "get", Idx: 0}, {Op: "get", Idx: 1}}},
	}
}

// simul.RunTest, buckets "0:2 2:3-3:4", hosts 0..3 reporting 10,20,30,40
func runTestWitness() input {
	in := input{Kind: "runtest", Mode: "runtest", Conns: 1, Ops: []opIn{
		{Op: "bucket", Idx: 0, Rules: []string{"0:2"}}, {Op: "bucket", Idx: 1, Rules: []string{"2:3", "3:4"}}}}
	for h := 0; h < 4; h++ {
		in.Ops = append(in.Ops, opIn{Op: "wire", Name: "m", V: float64(10 * (h + 1)), Host: h})
	}
	for j := 0; j < 3; j++ {
		in.Ops = append(in.Ops, opIn{Op: "header", Obj: j}, opIn{Op: "values", Obj: j})
	}
	return in
}

func avgReuseWitness() []opIn {
	ops := []opIn{{Op: "new"}, {Op: "new"}, {Op: "new"}}
	for _, v := range []float64{1, 2, 3, 4, 5} {
		ops = append(ops, opIn{Op: "direct", Obj: 1, Name: "round", V: v})
	}
	for _, v := range []float64{10, 20, 30} {
		ops = append(ops, opIn{Op: "direct", Obj: 2, Name: "round", V: v})
	}
	for _, v := range []float64{100, 200, 300} {
		ops = append(ops, opIn{Op: "direct", Obj: 3, Name: "round", V: v})
	}
	return append(ops,
		opIn{Op: "average", Srcs: []int{1, 2}}, opIn{Op: "average", Srcs: []int{1, 3}},
		opIn{Op: "values", Obj: 4}, opIn{Op: "values", Obj: 5},
		opIn{Op: "average", Srcs: []int{1, 2}}, opIn{Op: "direct", Obj: 1, Name: "round", V: 1000},
		opIn{Op: "values", Obj: 6}, opIn{Op: "values", Obj: 1})
}

func main() {
	log.SetDebugVisible(0)
	lib.Main(lib.Harness{
		Prop:     "C19",
		Import:   "Onet.Corr.C19",
		Rule:     "history on the real simul/monitor code vs the Gallina state machine; exact statistics of the recorded values vs the reported ones",
		Shard:    30,
		Generate: generate,
		Run:      run,
		Corpus:   corpus,
	})
}
