// C05 harness: several protocol runs whose root instances live on one server
// are fed concurrently (children over their own connections + local injection
// through Overlay.TransmitMsg). The root instances stamp Accept / Start / End
// with one global counter; the stamped trace is validated against the Coq
// transition system and checked by the property checker.
package main

import (
	"os"
	"encoding/json"
	"fmt"
	"math/rand"
	"sort"
	"sync"
	"sync/atomic"
	"time"

	"go.dedis.ch/kyber/v3/suites"
	"go.dedis.ch/onet/v3"
	"go.dedis.ch/onet/v3/log"
	"go.dedis.ch/onet/v3/network"

	"verifharness/lib"
)

var suite = suites.MustFind("Ed25519")

const protoName = "VerifC05"

// Ping is sent to the root instance. Work: microseconds spent in the handler,
// -1 = block until the harness releases.
type Ping struct {
	Run  int
	ID   int
	Work int
}

// Go tells a child to send Count pings to its parent.
type Go struct {
	Run   int
	Count int
	Work  int
	Child int
}

type event struct {
	seq  int64
	inst int
	kind string
	msg  int
}

type recorder struct {
	sync.Mutex
	ctr     int64
	evs     []event
	release chan struct{}
	ended   map[int]int
	cond    *sync.Cond
}

var rec *recorder
var sched *lib.Sched

func newRecorder() *recorder {
	r := &recorder{release: make(chan struct{}), ended: map[int]int{}}
	r.cond = sync.NewCond(&r.Mutex)
	return r
}

func (r *recorder) stamp(inst int, kind string, msg int) {
	s := atomic.AddInt64(&r.ctr, 1)
	r.Lock()
	r.evs = append(r.evs, event{s, inst, kind, msg})
	if kind == "OEnd" {
		r.ended[inst]++
		r.cond.Broadcast()
	}
	r.Unlock()
}

type proto struct {
	*onet.TreeNodeInstance
	run      int  // index of the run (root instances only)
	observed bool // root instance whose events are recorded
}

// CPing is received by the channel protocol through an aggregating channel.
type CPing struct {
	Run int
	ID  int
}

const chanProtoName = "VerifC05Chan"

// chanProto registers an aggregating channel of length 1 and does not read it until released:
// a protocol that is slow in taking its batches
type chanProto struct {
	*onet.TreeNodeInstance
	ch chan []struct {
		*onet.TreeNode
		CPing
	}
}

func newChanProto(n *onet.TreeNodeInstance) (onet.ProtocolInstance, error) {
	p := &chanProto{TreeNodeInstance: n}
	if err := p.RegisterChannelLength(&p.ch, 1); err != nil {
		return nil, err
	}
	return p, nil
}

func (p *chanProto) Start() error { return nil }

func newProto(n *onet.TreeNodeInstance) (onet.ProtocolInstance, error) {
	p := &proto{TreeNodeInstance: n, run: -1}
	if err := p.RegisterHandlers(p.handlePing, p.handleGo); err != nil {
		return nil, err
	}
	return p, nil
}

func (p *proto) Start() error { return nil }

// ProcessProtocolMsg stamps the acceptance order. The overlay calls it under its
// transmit lock, so the order of the stamps is the order of the appends.
func (p *proto) ProcessProtocolMsg(msg *onet.ProtocolMsg) {
	if p.observed {
		if pg, ok := msg.Msg.(*Ping); ok {
			rec.stamp(p.run, "OAccept", pg.ID)
		}
	}
	p.TreeNodeInstance.ProcessProtocolMsg(msg)
}

func (p *proto) handlePing(m struct {
	*onet.TreeNode
	Ping
}) error {
	if !p.observed {
		return nil
	}
	rec.stamp(p.run, "OStart", m.Ping.ID)
	if m.Work < 0 {
		<-rec.release
	} else if m.Work > 0 {
		time.Sleep(time.Duration(m.Work) * time.Microsecond)
	}
	rec.stamp(p.run, "OEnd", m.Ping.ID)
	return nil
}

func (p *proto) handleGo(m struct {
	*onet.TreeNode
	Go
}) error {
	g := m.Go
	go func() {
		for j := 0; j < g.Count; j++ {
			if err := p.SendToParent(&Ping{Run: g.Run, ID: g.Child*100 + j, Work: g.Work}); err != nil {
				log.Lvl3("send to parent:", err)
			}
		}
		p.Done()
	}()
	return nil
}

type input struct {
	TCP      bool  `json:"tcp"`
	Servers  int   `json:"servers"`
	Runs     int   `json:"runs"`
	PerChild int   `json:"per_child"`
	Local    int   `json:"local"`   // locally injected messages per run
	Feeders  int   `json:"feeders"` // goroutines doing the local injection
	Work     []int `json:"work"`    // handler duration (us) per run
	Blocked  int   `json:"blocked"` // run whose first handler blocks (-1 none)
	Stall    bool  `json:"stall"`   // hold the reader between unlock and wait while a message arrives
	Hold     int   `json:"hold,omitempty"` // keep the blocked handler blocked for this many ms after every other run has finished
	Backlog  int   `json:"backlog,omitempty"` // messages injected for the blocked run behind its blocked handler
	Trickle  int   `json:"trickle,omitempty"` // messages that keep arriving for the blocked run while its backlog is worked off
	// one more instance on the server, of a protocol with an aggregating channel of length 1 that it
	// does not read until the release: its dispatch routine sits in the channel send meanwhile
	ChanBlock bool `json:"chan_block,omitempty"`
}

type obs struct {
	Events   int    `json:"events"`
	Per      []int  `json:"accepted_per_instance"`
	Timeout  bool   `json:"timeout"`
	Trace    string `json:"trace_head"`
	Released bool   `json:"released"`
}

func waitEnded(want map[int]int, d time.Duration) bool {
	deadline := time.Now().Add(d)
	done := make(chan struct{})
	go func() {
		select {
		case <-time.After(d):
			rec.Lock()
			rec.cond.Broadcast()
			rec.Unlock()
		case <-done:
		}
	}()
	defer close(done)
	rec.Lock()
	defer rec.Unlock()
	for {
		ok := true
		for i, w := range want {
			if rec.ended[i] < w {
				ok = false
			}
		}
		if ok {
			return true
		}
		if time.Now().After(deadline) {
			return false
		}
		rec.cond.Wait()
	}
}

func run(raw json.RawMessage) lib.Case {
	var in input
	if err := json.Unmarshal(raw, &in); err != nil {
		panic(err)
	}
	t0 := time.Now()
	defer func() {
		if os.Getenv("VERIF_C05_TIMING") != "" {
			fmt.Fprintf(os.Stderr, "c05 case %+v took %.1fs\n", in, time.Since(t0).Seconds())
		}
	}()
	rec = newRecorder()
	sched = lib.NewSched()
	onet.SetVerifHook(sched.Hook)
	defer sched.ReleaseAll()
	var lt *onet.LocalTest
	if in.TCP {
		lt = onet.NewTCPTest(suite)
	} else {
		lt = onet.NewLocalTest(suite)
	}
	lt.Check = onet.CheckNone
	servers := lt.GenServers(in.Servers)
	roster := lt.GenRosterFromHost(servers...)
	tree := roster.GenerateStar()
	rootOv := lt.Overlays[servers[0].ServerIdentity.ID]

	roots := make([]*proto, in.Runs)
	for k := 0; k < in.Runs; k++ {
		pi, err := lt.CreateProtocol(protoName, tree)
		if err != nil {
			lt.CloseAll()
			return lib.Case{Discard: true}
		}
		p := pi.(*proto)
		p.run = k
		p.observed = true
		roots[k] = p
	}
	nchildren := len(tree.Root.Children)
	var chanX *chanProto
	var wgX sync.WaitGroup
	if in.ChanBlock {
		pi, err := lt.CreateProtocol(chanProtoName, tree)
		if err != nil {
			lt.CloseAll()
			return lib.Case{Discard: true}
		}
		chanX = pi.(*chanProto)
		// four complete children rounds: the first batch fills the channel, the second blocks the
		// dispatch routine in the send, the others queue up behind it
		wgX.Add(1)
		go func() {
			defer wgX.Done()
			tok := chanX.Token()
			for r := 0; r < 4; r++ {
				for _, child := range tree.Root.Children {
					rootOv.TransmitMsg(&onet.ProtocolMsg{
						From: tok.ChangeTreeNodeID(child.ID), To: tok, ServerIdentity: child.ServerIdentity,
						Msg: &CPing{Run: in.Runs, ID: r}, MsgType: network.MessageType(&CPing{}), Size: 8}, nil)
				}
				if r == 1 {
					time.Sleep(50 * time.Millisecond) // let the dispatch routine reach the full channel
				}
			}
		}()
		waitX := make(chan struct{})
		go func() { wgX.Wait(); close(waitX) }()
		select {
		case <-waitX:
		case <-time.After(5 * time.Second):
			// accepting for the slow instance does not return: the other runs are fed all the same
		}
	}
	want := map[int]int{}
	blockedMsgID := -1
	var wg sync.WaitGroup
	for k := 0; k < in.Runs; k++ {
		k := k
		p := roots[k]
		work := in.Work[k%len(in.Work)]
		expected := nchildren*in.PerChild + in.Local
		if k == in.Blocked {
			// the very first message of the blocked run never returns until released
			blockedMsgID = 990
			expected++
			wg.Add(1)
			go func() {
				defer wg.Done()
				tok := p.Token()
				child := tree.Root.Children[0]
				rootOv.TransmitMsg(&onet.ProtocolMsg{
					From: tok.ChangeTreeNodeID(child.ID), To: tok, ServerIdentity: child.ServerIdentity,
					Msg: &Ping{Run: k, ID: blockedMsgID, Work: -1}, MsgType: network.MessageType(&Ping{}), Size: 8}, nil)
			}()
			wg.Wait()
			if in.Backlog > 0 {
				// a long queue behind the blocked handler: accepting must stay immediate whatever its length
				expected += in.Backlog
				wg.Add(1)
				go func() {
					defer wg.Done()
					tok := p.Token()
					child := tree.Root.Children[0]
					for j := 0; j < in.Backlog; j++ {
						rootOv.TransmitMsg(&onet.ProtocolMsg{
							From: tok.ChangeTreeNodeID(child.ID), To: tok, ServerIdentity: child.ServerIdentity,
							Msg: &Ping{Run: k, ID: 2000 + j, Work: 0}, MsgType: network.MessageType(&Ping{}), Size: 8}, nil)
					}
				}()
			}
		}
		want[k] = expected
		// children feed over their own connections
		for c, ch := range tree.Root.Children {
			if err := p.SendTo(ch, &Go{Run: k, Count: in.PerChild, Work: work, Child: c + 1}); err != nil {
				log.Lvl2("sending Go:", err)
			}
		}
		// local injection through the overlay's entry point
		per := in.Local / maxi(in.Feeders, 1)
		for f := 0; f < in.Feeders; f++ {
			f := f
			n := per
			if f == in.Feeders-1 {
				n = in.Local - per*(in.Feeders-1)
			}
			wg.Add(1)
			go func() {
				defer wg.Done()
				tok := p.Token()
				child := tree.Root.Children[f%nchildren]
				for j := 0; j < n; j++ {
					rootOv.TransmitMsg(&onet.ProtocolMsg{
						From: tok.ChangeTreeNodeID(child.ID), To: tok, ServerIdentity: child.ServerIdentity,
						Msg: &Ping{Run: k, ID: 1000 + f*100 + j, Work: work}, MsgType: network.MessageType(&Ping{}), Size: 8}, nil)
				}
			}()
		}
	}
	// the feeders hand over and return; one that does not (an accept that waits for a handler) is
	// left behind and shows as messages that other instances did not get during the block
	fed := make(chan struct{})
	go func() { wg.Wait(); close(fed) }()
	feederStuck := false
	select {
	case <-fed:
	case <-time.After(20 * time.Second):
		feederStuck = true
	}
	sent := make([]int, in.Runs)
	for k := range sent {
		sent[k] = want[k]
	}
	// everything except the blocked instance must finish while the block lasts
	wantOthers := map[int]int{}
	for k, w := range want {
		if k != in.Blocked {
			wantOthers[k] = w
		}
	}
	okOthers := waitEnded(wantOthers, 30*time.Second)
	if in.Blocked >= 0 && in.Hold > 0 {
		// "all handler durations including indefinitely blocked ones": the messages queued behind the
		// blocked handler must still be waiting after a long time
		time.Sleep(time.Duration(in.Hold) * time.Millisecond)
	}
	if in.Blocked >= 0 {
		rec.stamp(in.Blocked, "ORelease", 0)
	} else if in.ChanBlock {
		rec.stamp(in.Runs, "ORelease", 0)
	}
	if chanX != nil {
		go func() {
			for {
				select {
				case <-chanX.ch:
				case <-time.After(20 * time.Second):
					return
				}
			}
		}()
	}
	close(rec.release)
	inject := func(k, id, work int) {
		p := roots[k]
		tok := p.Token()
		child := tree.Root.Children[0]
		rootOv.TransmitMsg(&onet.ProtocolMsg{
			From: tok.ChangeTreeNodeID(child.ID), To: tok, ServerIdentity: child.ServerIdentity,
			Msg: &Ping{Run: k, ID: id, Work: work}, MsgType: network.MessageType(&Ping{}), Size: 8}, nil)
	}
	if in.Blocked >= 0 && in.Trickle > 0 {
		// the backlog is worked off by slow handlers while a feeder keeps adding, a little faster
		// than the handlers take them: the queue never drains and grows through several sizes
		want[in.Blocked] += in.Trickle
		for j := 0; j < in.Trickle; j++ {
			inject(in.Blocked, 3000+j, 250)
			time.Sleep(120 * time.Microsecond)
		}
	}
	okAll := waitEnded(want, 60*time.Second)
	if in.Blocked >= 0 && in.Backlog > 0 && okAll {
		// the instance is idle again after the burst: one message, then two that overlap
		k := in.Blocked
		want[k]++
		inject(k, 4000, 0)
		okAll = waitEnded(want, 30*time.Second)
		want[k] += 2
		var wg2 sync.WaitGroup
		for j := 1; j <= 2; j++ {
			wg2.Add(1)
			go func(j int) {
				defer wg2.Done()
				inject(k, 4000+j, 3000)
			}(j)
		}
		wg2.Wait()
		okAll = waitEnded(want, 30*time.Second) && okAll
	}
	if in.Stall && okAll {
		// the wake-up that arrives while the reader is between "queue empty" and the
		// channel receive must not be lost
		for k, p := range roots {
			tni := p.TreeNodeInstance
			g := sched.Block("tni.beforeWait", 1, func(args []interface{}) bool {
				return len(args) > 0 && args[0] == interface{}(tni)
			})
			tok := p.Token()
			child := tree.Root.Children[0]
			inject := func(id int) {
				rootOv.TransmitMsg(&onet.ProtocolMsg{
					From: tok.ChangeTreeNodeID(child.ID), To: tok, ServerIdentity: child.ServerIdentity,
					Msg: &Ping{Run: k, ID: id, Work: 0}, MsgType: network.MessageType(&Ping{}), Size: 8}, nil)
			}
			inject(991)
			want[k]++
			if !g.WaitHit(20 * time.Second) {
				g.Release()
				continue
			}
			inject(992)
			want[k]++
			g.Release()
		}
		okAll = waitEnded(want, 30*time.Second)
	}
	for k, p := range roots {
		rec.stamp(k, "OClose", 0)
		p.Done()
	}
	if chanX != nil {
		chanX.Done()
	}
	lt.WaitDone(2 * time.Second)
	lt.CloseAll()

	rec.Lock()
	evs := append([]event(nil), rec.evs...)
	rec.Unlock()
	sort.Slice(evs, func(i, j int) bool { return evs[i].seq < evs[j].seq })
	items := make([]string, len(evs))
	per := make([]int, in.Runs)
	for i, e := range evs {
		items[i] = fmt.Sprintf("(%d, %s, %d)", e.inst, e.kind, e.msg)
		if e.kind == "OAccept" {
			per[e.inst]++
		}
	}
	must := []int{}
	for k := 0; k < in.Runs; k++ {
		must = append(must, k)
	}
	blocked := "None"
	if in.Blocked >= 0 {
		blocked = fmt.Sprintf("(Some %d)", in.Blocked)
	}
	ninst := in.Runs
	if in.ChanBlock {
		// the slow channel instance is instance number Runs: not observed, only released
		ninst++
		sent = append(sent, 0)
		if in.Blocked < 0 {
			blocked = fmt.Sprintf("(Some %d)", in.Runs)
		}
	}
	coq := fmt.Sprintf("mkCase %d %s %s %s %s", ninst, lib.List(items), lib.NatList(must), blocked, lib.NatList(sent))
	head := items
	if len(head) > 24 {
		head = head[:24]
	}
	class := "local"
	if in.TCP {
		class = "tcp"
	}
	if in.Blocked >= 0 {
		class += "-blocked"
	}
	if in.Stall {
		class += "-stall"
	}
	if in.Hold > 0 {
		class += "-longhold"
	}
	if in.Backlog > 0 {
		class += "-backlog"
	}
	if in.Trickle > 0 {
		class += "-trickle"
	}
	if in.ChanBlock {
		class += "-chanblock"
	}
	if feederStuck {
		class += "+feederstuck"
	}
	// the scenario was reached only if every expected message was at least accepted
	reached := true
	for k := range want {
		if per[k] < want[k] {
			reached = false
		}
	}
	o := obs{Events: len(evs), Per: per, Timeout: !(okOthers && okAll), Trace: fmt.Sprint(head), Released: in.Blocked >= 0}
	if !reached {
		// fewer messages were accepted than were sent: judged on what was accepted
		class += "+unreached"
	}
	return lib.Case{Coq: coq, Class: class, Obs: o, Nontrivial: len(evs) > 6,
		Key: fmt.Sprint(items)}
}

func maxi(a, b int) int {
	if a > b {
		return a
	}
	return b
}

func generate(rng *rand.Rand, tier string) []interface{} {
	n := 10
	if tier != "quick" {
		n = 120
	}
	var ins []interface{}
	for i := 0; i < n; i++ {
		in := input{
			TCP:      i%4 == 3,
			Servers:  3 + rng.Intn(3),
			Runs:     1 + rng.Intn(3),
			PerChild: 1 + rng.Intn(6),
			Local:    rng.Intn(12),
			Feeders:  1 + rng.Intn(4),
			Blocked:  -1,
		}
		for k := 0; k < in.Runs; k++ {
			in.Work = append(in.Work, []int{0, 0, 50, 300, 1500}[rng.Intn(5)])
		}
		if in.Runs >= 2 && rng.Intn(2) == 0 {
			in.Blocked = rng.Intn(in.Runs)
		}
		if in.Blocked >= 0 && rng.Intn(3) == 0 {
			in.Backlog = 80 + rng.Intn(240)
			if rng.Intn(2) == 0 {
				in.Trickle = 100 + rng.Intn(150)
			}
		}
		if in.Blocked < 0 && rng.Intn(3) == 0 {
			in.ChanBlock = true
		}
		in.Stall = rng.Intn(2) == 0
		ins = append(ins, in)
	}
	return ins
}

func corpus() []interface{} {
	l := []interface{}{
		input{Servers: 3, Runs: 2, PerChild: 3, Local: 4, Feeders: 2, Work: []int{200, 0}, Blocked: 0},
		input{TCP: true, Servers: 4, Runs: 2, PerChild: 4, Local: 6, Feeders: 3, Work: []int{0, 100}, Blocked: 1},
		input{Servers: 5, Runs: 1, PerChild: 8, Local: 16, Feeders: 4, Work: []int{100}, Blocked: -1},
		input{Servers: 3, Runs: 2, PerChild: 2, Local: 2, Feeders: 1, Work: []int{0}, Blocked: -1, Stall: true},
	}
	// a long queue behind a blocked handler
	l = append(l, input{Servers: 3, Runs: 2, PerChild: 2, Local: 3, Feeders: 2, Work: []int{0}, Blocked: 0, Backlog: 180},
		input{TCP: true, Servers: 3, Runs: 3, PerChild: 3, Local: 2, Feeders: 1, Work: []int{0, 50}, Blocked: 1, Backlog: 260},
		input{Servers: 3, Runs: 2, PerChild: 2, Local: 2, Feeders: 1, Work: []int{0}, Blocked: 1, Backlog: 40, Trickle: 220},
		input{Servers: 3, Runs: 2, PerChild: 1, Local: 1, Feeders: 1, Work: []int{0}, Blocked: 0, Backlog: 75, Trickle: 120})
	// a protocol that does not take its batches from an aggregating channel
	l = append(l, input{Servers: 3, Runs: 2, PerChild: 3, Local: 4, Feeders: 2, Work: []int{0}, Blocked: -1, ChanBlock: true},
		input{TCP: true, Servers: 4, Runs: 2, PerChild: 2, Local: 3, Feeders: 1, Work: []int{0, 50}, Blocked: -1, ChanBlock: true})
	// a handler blocked for a long time (watchdogs, time-outs on the dispatch): 11.5 s, thorough also 65 s
	l = append(l, input{Servers: 3, Runs: 2, PerChild: 2, Local: 3, Feeders: 1, Work: []int{0}, Blocked: 0, Hold: 11500})
	for i, a := range os.Args {
		if a == "-tier" && i+1 < len(os.Args) && os.Args[i+1] != "quick" {
			l = append(l, input{Servers: 3, Runs: 2, PerChild: 2, Local: 3, Feeders: 1, Work: []int{0}, Blocked: 1, Hold: 65000})
		}
	}
	return l
}

func main() {
	log.SetDebugVisible(0)
	log.OutputToBuf()
	if _, err := onet.GlobalProtocolRegister(protoName, newProto); err != nil {
		panic(err)
	}
	network.RegisterMessages(&Ping{}, &Go{}, &CPing{})
	if _, err := onet.GlobalProtocolRegister(chanProtoName, newChanProto); err != nil {
		panic(err)
	}
	lib.Main(lib.Harness{
		Prop:   "C05",
		Import: "Onet.Corr.C05",
		Rule: "seeded scenarios: 3-5 servers (in-memory and TCP), 1-3 runs rooted on one server, children feeding over their own " +
			"connections plus 1-4 goroutines injecting through Overlay.TransmitMsg, handler durations 0-1500us, optionally one run " +
			"whose handler blocks until every other run has finished (in a third of those with 80-320 further messages queued behind it); non-trivial = more than 6 stamped events; distinct = distinct event trace",
		Shard:    8,
		Generate: generate,
		Run:      run,
		Corpus:   corpus,
	})
}
