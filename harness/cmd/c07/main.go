// C07 harness: one real onet server X is fed histories of overlay envelopes whose
// fields range over the classes of the property (absent, zero, random, known,
// requested-not-received, running, finished), in three server states, followed by
// canary requests and canary protocol messages. Its peers A (root of the genuine
// trees), B, H (hostile) are bare routers that record what X sends them.
//
// Two injection paths: "proc" hands the envelope to Overlay.Process (under
// recover) inside a long-lived worker sub-process; "net" sends it from the peer's
// router through a real TCP connection into a fresh sub-process hosting X. In both
// the exit of the sub-process is the crash oracle for panics that recover cannot
// catch. After every envelope the harness waits for the goroutines it started
// (schedule points / a sentinel through the instance queue / a marker through the
// connection), probes the overlay mutexes and snapshots the server. The same
// history is run by the Coq model (Overlay/Robust.v) and compared; the property
// checker is evaluated on the observations alone.
package main

import (
	"bufio"
	"bytes"
	"encoding/json"
	"fmt"
	"io"
	"math/rand"
	"net"
	"os"
	"os/exec"
	"sort"
	"strconv"
	"strings"
	"sync"
	"sync/atomic"
	"time"

	"github.com/google/uuid"
	"go.dedis.ch/kyber/v3/suites"
	"go.dedis.ch/kyber/v3/util/key"
	"go.dedis.ch/onet/v3"
	"go.dedis.ch/onet/v3/log"
	"go.dedis.ch/onet/v3/network"

	"verifharness/lib"
)

var suite = suites.MustFind("Ed25519")

const protoName = "VerifC07"

// Ping is the protocol message of the harness protocol; Other is a registered
// message type the protocol does not handle; Marker is the barrier message.
type Ping struct {
	N     int
	Reply bool
}
type Pong struct{ N int }
type Other struct{ N int }

// Agg is handled by an aggregating handler (treenode.go aggregate + dispatchHandler with
// AggregateMessages), Chn goes to a registered channel (dispatchChannel): both paths take
// peer-controlled values (sender token, message type) and are exercised for crashes,
// leaks and hangs; the model treats these bodies as "decodable, not the Ping handler".
type Agg struct{ N int }
type Chn struct{ N int }
type Marker struct{ N int }

// ---- input language ---------------------------------------------------------------

type jtok struct {
	Ro, Tr, Pr, Sv, Rd, Nd int
}

type jnode struct {
	N  int     `json:"n"`
	S  int     `json:"s"`
	Ch []jnode `json:"ch,omitempty"`
}

type jtm struct {
	Tr int     `json:"tr"`
	Ro int     `json:"ro"`
	Ch []jnode `json:"ch"`
}

type jmem struct {
	S int  `json:"s"`
	K bool `json:"k"`
}

type jro struct {
	ID int    `json:"id"`
	L  []jmem `json:"l"`
}

type jmsg struct {
	T    string `json:"t"` // proto reqtree resptree treemarshal reqroster roster config
	From *jtok  `json:"from,omitempty"`
	To   *jtok  `json:"to,omitempty"`
	B    string `json:"b,omitempty"` // ping other garbage
	// Decl: the MsgType field written into the ProtocolMsg when it is not the type of the
	// encoded body: ping other agg chan (registered types) or unknown
	Decl string `json:"decl,omitempty"`
	Tree int    `json:"tree,omitempty"`
	Ver  int    `json:"ver,omitempty"`
	TM   *jtm   `json:"tm,omitempty"`
	RO   *jro   `json:"ro,omitempty"`
	RID  int    `json:"rid,omitempty"`
	Dest *jtok  `json:"dest,omitempty"`
}

type jop struct {
	K      string `json:"k"` // recv tree done elapse (the grace period of the tree store elapses; needs input.ShortStore)
	P      int    `json:"p,omitempty"`
	Cfg    bool   `json:"cfg,omitempty"`
	M      *jmsg  `json:"m,omitempty"`
	Tree   int    `json:"tree,omitempty"`
	Tok    *jtok  `json:"tok,omitempty"`
	Canary string `json:"canary,omitempty"` // "", run (delivered by now), ask (asked for the tree or delivered), reqtree, reqroster
	XTok   *jtok  `json:"xtok,omitempty"`   // run/ask: the token whose handler must be called
	XFrom  int    `json:"xfrom,omitempty"`  // ... with this sender node
}

type input struct {
	Name  string `json:"name"`
	State string `json:"state"`
	Net   bool   `json:"net,omitempty"`
	Kind  string `json:"kind,omitempty"` // "" = history, "f26-stress", "race-deliver-done"
	// race-deliver-done: who closes the instance while the delivery is held at its
	// wake-up ("done", "close" = Overlay.Close) and who delivers ("flush" = the flush
	// goroutine of checkPendingMessages delivers a parked message, closed by Done)
	Variant string `json:"variant,omitempty"`
	// Continue: keep going after a leaked mutex / failed canary (default: the history
	// ends at the first operation that breaks the property)
	Continue bool `json:"continue,omitempty"`
	// ShortStore: treeStorage.timeout is shortened to storeGrace (hook VerifSetTreeTimeout)
	// before the first operation, so that an "elapse" operation can wait it out
	ShortStore bool  `json:"shortstore,omitempty"`
	Ops        []jop `json:"ops"`
}

// per-operation observation, produced by the worker
type obs struct {
	Index   int      `json:"i"`
	Out     int      `json:"out"` // 0 ok, 1 panic, 2 blocked
	Locks   []int    `json:"locks"`
	Sends   []string `json:"sends"`
	Delivs  []string `json:"delivs"`
	Store   []string `json:"store"`
	Insts   []string `json:"insts"`
	Parked  int      `json:"parked"`
	PTM     int      `json:"ptm"`
	Removal []string `json:"removal"`
	Tag     string   `json:"tag"`
	Canary  bool     `json:"canary_ok"`
	ReplyOK bool     `json:"reply_ok"` // every reply of the handler has arrived at its parent
	Note    string   `json:"note,omitempty"`
	// for the cause of a canary failure: genuine trees (1..3) whose stored copy differs
	// from the genuine tree, and genuine trees that are requested but not received
	Forged  []int `json:"forged,omitempty"`
	Genuine []int `json:"genuine,omitempty"` // genuine trees stored as they are
	Awaited []int `json:"awaited,omitempty"`
}

type workerOut struct {
	Obs   *obs   `json:"obs,omitempty"`
	Done  bool   `json:"done,omitempty"`
	Fail  string `json:"fail,omitempty"`  // scenario not reached
	Extra string `json:"extra,omitempty"` // f26: what was seen
}

// ---- harness protocol ---------------------------------------------------------------

type proto struct {
	*onet.TreeNodeInstance
	w  *world
	ch chan struct {
		*onet.TreeNode
		Chn
	}
}

var curWorld atomic.Value // *world

func newProto(n *onet.TreeNodeInstance) (onet.ProtocolInstance, error) {
	w, _ := curWorld.Load().(*world)
	p := &proto{TreeNodeInstance: n, w: w}
	if w != nil {
		w.mu.Lock()
		w.protos[n.Token().ID()] = p
		w.mu.Unlock()
	}
	if err := p.RegisterHandler(p.handlePing); err != nil {
		return nil, err
	}
	if err := p.RegisterHandler(p.handleAgg); err != nil {
		return nil, err
	}
	if err := p.RegisterChannel(&p.ch); err != nil {
		return nil, err
	}
	return p, nil
}

func (p *proto) Start() error { return nil }

func (p *proto) handleAgg(ms []struct {
	*onet.TreeNode
	Agg
}) error {
	return nil
}

func (p *proto) handlePing(m struct {
	*onet.TreeNode
	Ping
}) error {
	w := p.w
	if w == nil {
		return nil
	}
	if m.N < 0 {
		// sentinel: everything queued before it has been handled
		w.mu.Lock()
		ch := w.sentinels[m.N]
		w.mu.Unlock()
		if ch != nil {
			close(ch)
		}
		return nil
	}
	w.mu.Lock()
	w.delivs = append(w.delivs, fmt.Sprintf("(%s, %d)", w.tokCoq(p.Token()), w.nodeAbs(m.TreeNode.ID)))
	w.mu.Unlock()
	if m.Reply {
		w.mu.Lock()
		w.replies++
		w.mu.Unlock()
		return p.SendToParent(&Pong{N: m.N})
	}
	return nil
}

// ---- the world of one case ------------------------------------------------------------

type peerRec struct {
	r  *network.Router
	id *network.ServerIdentity
}

type world struct {
	mu        sync.Mutex
	lt        *onet.LocalTest
	x         *onet.Server
	ov        *onet.Overlay
	net       bool
	peers     map[int]*peerRec // 1 A, 2 B, 3 H
	ids       map[int]*network.ServerIdentity
	roster    *onet.Roster
	trees     map[int]*onet.Tree // 1..3 genuine
	treeID    map[int]onet.TreeID
	treeAbs   map[onet.TreeID]int
	rosterID  map[int]onet.RosterID
	rosterAbs map[onet.RosterID]int
	nodeID    map[int]onet.TreeNodeID
	nodeAbsM  map[onet.TreeNodeID]int
	protos    map[onet.TokenID]*proto
	sentinels map[int]chan struct{}
	nextSent  int
	sends     []string
	delivs    []string
	pongs     int
	replies   int // replies the protocol's handler sent to its parent
	markers   map[int]chan struct{}
	nextMark  int
	treeSet   int64
	flushDone int64
	scanFree  int64 // f26 hook: scans of the instance table seen while instancesLock was free
	scans     int64
	tracked   []int
	trackTok  []jtok
	sched     *lib.Sched
}

func hashUUID(kind string, n int) uuid.UUID {
	return uuid.NewSHA1(uuid.NameSpaceURL, []byte(fmt.Sprintf("verif-c07-%s-%d", kind, n)))
}

func freePort() int {
	l, err := net.Listen("tcp", "127.0.0.1:0")
	if err != nil {
		panic(err)
	}
	defer l.Close()
	return l.Addr().(*net.TCPAddr).Port
}

func newIdentity(tcp bool, port int) *network.ServerIdentity {
	kp := key.NewKeyPair(suite)
	var addr network.Address
	if tcp {
		addr = network.NewAddress(network.PlainTCP, "127.0.0.1:"+strconv.Itoa(port))
	} else {
		addr = network.NewLocalAddress("127.0.0.1:" + strconv.Itoa(port))
	}
	return network.NewServerIdentity(kp.Public, addr)
}

func newWorld(netMode bool) (*world, error) {
	w := &world{net: netMode, peers: map[int]*peerRec{}, ids: map[int]*network.ServerIdentity{},
		trees: map[int]*onet.Tree{}, treeID: map[int]onet.TreeID{}, treeAbs: map[onet.TreeID]int{},
		rosterID: map[int]onet.RosterID{}, rosterAbs: map[onet.RosterID]int{},
		nodeID: map[int]onet.TreeNodeID{}, nodeAbsM: map[onet.TreeNodeID]int{},
		protos: map[onet.TokenID]*proto{}, sentinels: map[int]chan struct{}{}, markers: map[int]chan struct{}{}}
	if netMode {
		w.lt = onet.NewTCPTest(suite)
	} else {
		w.lt = onet.NewLocalTest(suite)
	}
	w.lt.Check = onet.CheckNone
	w.x = w.lt.GenServers(1)[0]
	w.ov = w.x.VerifOverlay()
	w.ids[4] = w.x.ServerIdentity
	for i, n := range []int{1, 2, 3} {
		var id *network.ServerIdentity
		var r *network.Router
		var err error
		if netMode {
			id = newIdentity(true, freePort())
			r, err = network.NewTCPRouter(id, suite)
		} else {
			id = newIdentity(false, 2500+10*i)
			r, err = network.NewLocalRouterWithManager(w.lt.VerifLocalManager(), id, suite)
		}
		if err != nil {
			return nil, err
		}
		r.Quiet = true
		p := &peerRec{r: r, id: id}
		w.peers[n] = p
		w.ids[n] = id
		w.recordAt(n, p)
		go r.Start()
	}
	for _, p := range w.peers {
		deadline := time.Now().Add(5 * time.Second)
		for !p.r.Listening() {
			if time.Now().After(deadline) {
				return nil, fmt.Errorf("peer router does not listen")
			}
			time.Sleep(200 * time.Microsecond)
		}
	}
	// identity 0: nothing listens there
	if netMode {
		w.ids[0] = newIdentity(true, freePort())
	} else {
		w.ids[0] = newIdentity(false, 2600)
	}
	// genuine roster (A, X, B) and trees
	w.roster = onet.NewRoster([]*network.ServerIdentity{w.ids[1], w.ids[4], w.ids[2]})
	w.rosterID[0] = onet.RosterID{}
	w.rosterID[1] = w.roster.ID
	w.rosterAbs[w.roster.ID] = 1
	w.rosterAbs[onet.RosterID{}] = 0
	mk := func(shape int) *onet.Tree {
		a := onet.NewTreeNode(0, w.ids[1])
		x := onet.NewTreeNode(1, w.ids[4])
		b := onet.NewTreeNode(2, w.ids[2])
		switch shape {
		case 1:
			a.AddChild(x)
			a.AddChild(b)
		case 2:
			a.AddChild(x)
			x.AddChild(b)
		default:
			a.AddChild(b)
			b.AddChild(x)
		}
		return onet.NewTree(w.roster, a)
	}
	w.nodeID[0] = onet.TreeNodeID{}
	w.nodeAbsM[onet.TreeNodeID{}] = 0
	for n := 1; n <= 4; n++ {
		id := onet.NewTreeNode(0, w.idOf(n)).ID
		w.nodeID[n] = id
		w.nodeAbsM[id] = n
	}
	w.treeID[0] = onet.TreeID{}
	w.treeAbs[onet.TreeID{}] = 0
	for n := 1; n <= 3; n++ {
		w.trees[n] = mk(n)
		w.treeID[n] = w.trees[n].ID
		w.treeAbs[w.trees[n].ID] = n
	}
	// marker processor on X (net mode barrier)
	w.x.RegisterProcessorFunc(network.MessageType(&Marker{}), func(e *network.Envelope) error {
		m := e.Msg.(*Marker)
		w.mu.Lock()
		ch := w.markers[m.N]
		w.mu.Unlock()
		if ch != nil {
			close(ch)
		}
		return nil
	})
	return w, nil
}

// activate makes w the world of the running case: the harness protocol's
// instances and the schedule points report to it
func (w *world) activate() {
	curWorld.Store(w)
	if w.sched == nil {
		w.sched = lib.NewSched()
	}
	onet.SetVerifHook(func(point string, args ...interface{}) {
		if point == "tni.notify" {
			// the wake-up of an instance's reader: only the race scenarios hold it
			w.sched.Hook(point, args...)
			return
		}
		if len(args) == 0 || args[0] != interface{}(w.ov) {
			return // a goroutine of an earlier case's server
		}
		switch point {
		case "overlay.treeSet":
			atomic.AddInt64(&w.treeSet, 1)
		case "overlay.flushDone":
			atomic.AddInt64(&w.flushDone, 1)
		case "overlay.treeMarshalScan":
			atomic.AddInt64(&w.scans, 1)
			if w.ov.VerifLocksFree()["instancesLock"] {
				atomic.AddInt64(&w.scanFree, 1)
			}
		}
	})
}

func (w *world) close() {
	w.mu.Lock()
	ps := make([]*proto, 0, len(w.protos))
	for _, p := range w.protos {
		ps = append(ps, p)
	}
	w.mu.Unlock()
	if w.ov.VerifLocksFree()["instancesLock"] {
		for _, p := range ps {
			p.Done()
		}
	}
	done := make(chan struct{})
	go func() {
		for _, p := range w.peers {
			p.r.Stop()
		}
		w.lt.CloseAll()
		close(done)
	}()
	select {
	case <-done:
	case <-time.After(3 * time.Second):
		// a leaked overlay mutex can wedge the shutdown; the worker carries on
	}
}

// synthetic identities for server numbers >= 5
func (w *world) idOf(n int) *network.ServerIdentity {
	if id, ok := w.ids[n]; ok {
		return id
	}
	id := newIdentity(w.net, 2700+n)
	w.ids[n] = id
	return id
}

func (w *world) treeOf(n int) onet.TreeID {
	if id, ok := w.treeID[n]; ok {
		return id
	}
	id := onet.TreeID(hashUUID("tree", n))
	w.treeID[n] = id
	w.treeAbs[id] = n
	return id
}

func (w *world) rosterOf(n int) onet.RosterID {
	if id, ok := w.rosterID[n]; ok {
		return id
	}
	id := onet.RosterID(hashUUID("roster", n))
	w.rosterID[n] = id
	w.rosterAbs[id] = n
	return id
}

func (w *world) nodeOf(n int) onet.TreeNodeID {
	if id, ok := w.nodeID[n]; ok {
		return id
	}
	id := onet.TreeNodeID(hashUUID("node", n))
	w.nodeID[n] = id
	w.nodeAbsM[id] = n
	return id
}

func (w *world) nodeAbs(id onet.TreeNodeID) int {
	if n, ok := w.nodeAbsM[id]; ok {
		return n
	}
	return 4999
}

func (w *world) tok(t *jtok) *onet.Token {
	if t == nil {
		return nil
	}
	tk := &onet.Token{RosterID: w.rosterOf(t.Ro), TreeID: w.treeOf(t.Tr), TreeNodeID: w.nodeOf(t.Nd)}
	switch t.Pr {
	case 0:
	case 1:
		tk.ProtoID = onet.ProtocolNameToID(protoName)
	default:
		tk.ProtoID = onet.ProtocolID(hashUUID("proto", t.Pr))
	}
	if t.Sv != 0 {
		tk.ServiceID = onet.ServiceID(hashUUID("service", t.Sv))
	}
	if t.Rd != 0 {
		tk.RoundID = onet.RoundID(hashUUID("round", t.Rd))
	}
	return tk
}

// tokens are reported back in their abstract form: the harness keeps the table
func (w *world) tokCoq(t *onet.Token) string {
	id := t.ID()
	for _, jt := range w.trackTok {
		jt := jt
		if w.tok(&jt).ID().Equal(id) {
			return tokTerm(&jt)
		}
	}
	return "(mkTok 4999 4999 4999 4999 4999 4999)"
}

func (w *world) tmNode(n jnode) *onet.TreeMarshal {
	tm := &onet.TreeMarshal{TreeNodeID: w.nodeOf(n.N), ServerIdentityID: w.idOf(n.S).ID}
	for _, c := range n.Ch {
		tm.Children = append(tm.Children, w.tmNode(c))
	}
	return tm
}

func (w *world) tm(t *jtm) *onet.TreeMarshal {
	if t == nil {
		return nil
	}
	tm := &onet.TreeMarshal{TreeID: w.treeOf(t.Tr), RosterID: w.rosterOf(t.Ro)}
	for _, c := range t.Ch {
		tm.Children = append(tm.Children, w.tmNode(c))
	}
	return tm
}

func (w *world) ro(r *jro) *onet.Roster {
	if r == nil {
		return nil
	}
	ro := &onet.Roster{ID: w.rosterOf(r.ID), Aggregate: w.roster.Aggregate}
	for _, m := range r.L {
		si := *w.idOf(m.S)
		if !m.K {
			si.Public = nil
		}
		ro.List = append(ro.List, &si)
	}
	return ro
}

// the concrete message and its envelope type
func (w *world) message(m *jmsg) (network.Message, network.MessageTypeID) {
	switch m.T {
	case "proto":
		pm := &onet.ProtocolMsg{From: w.tok(m.From), To: w.tok(m.To)}
		switch m.B {
		case "ping":
			pm.MsgSlice, _ = network.Marshal(&Ping{N: 1})
			pm.MsgType = network.MessageType(&Ping{})
		case "pingreply":
			pm.MsgSlice, _ = network.Marshal(&Ping{N: 2, Reply: true})
			pm.MsgType = network.MessageType(&Ping{})
		case "other":
			pm.MsgSlice, _ = network.Marshal(&Other{N: 1})
			pm.MsgType = network.MessageType(&Other{})
		case "agg":
			pm.MsgSlice, _ = network.Marshal(&Agg{N: 1})
			pm.MsgType = network.MessageType(&Agg{})
		case "chan":
			pm.MsgSlice, _ = network.Marshal(&Chn{N: 1})
			pm.MsgType = network.MessageType(&Chn{})
		default:
			pm.MsgSlice = []byte{1, 2, 3, 4, 5, 6, 7, 8, 9, 10, 11, 12, 13, 14, 15, 16, 17, 18, 19, 20}
			pm.MsgType = network.MessageType(&Ping{})
		}
		switch m.Decl {
		case "ping":
			pm.MsgType = network.MessageType(&Ping{})
		case "other":
			pm.MsgType = network.MessageType(&Other{})
		case "agg":
			pm.MsgType = network.MessageType(&Agg{})
		case "chan":
			pm.MsgType = network.MessageType(&Chn{})
		case "unknown":
			pm.MsgType = network.MessageTypeID(hashUUID("msgtype", 1))
		}
		return pm, onet.ProtocolMsgID
	case "reqtree":
		return &onet.RequestTree{TreeID: w.treeOf(m.Tree), Version: uint32(m.Ver)}, onet.RequestTreeMsgID
	case "resptree":
		return &onet.ResponseTree{TreeMarshal: w.tm(m.TM), Roster: w.ro(m.RO)}, onet.ResponseTreeMsgID
	case "treemarshal":
		return w.tm(m.TM), onet.SendTreeMsgID
	case "reqroster":
		return &onet.RequestRoster{RosterID: w.rosterOf(m.RID)}, onet.RequestRosterMsgID
	case "roster":
		return w.ro(m.RO), onet.SendRosterMsgID
	case "config":
		cm := &onet.ConfigMsg{Config: onet.GenericConfig{Data: []byte{1}}}
		if m.Dest != nil {
			cm.Dest = w.tok(m.Dest).ID()
		} // else the zero TokenID
		return cm, onet.ConfigMsgID
	}
	panic("unknown message kind " + m.T)
}

// ---- recording what X sends ----------------------------------------------------------

func (w *world) recordAt(n int, p *peerRec) {
	rec := func(s string) {
		w.mu.Lock()
		w.sends = append(w.sends, fmt.Sprintf("(%d, %s)", n, s))
		w.mu.Unlock()
	}
	p.r.RegisterProcessorFunc(onet.RequestTreeMsgID, func(e *network.Envelope) error {
		m := e.Msg.(*onet.RequestTree)
		rec(fmt.Sprintf("RReqTree %d", w.treeAbsOf(m.TreeID)))
		return nil
	})
	p.r.RegisterProcessorFunc(onet.ResponseTreeMsgID, func(e *network.Envelope) error {
		m := e.Msg.(*onet.ResponseTree)
		tr, ro, root := 4999, 4999, 4999
		if m.TreeMarshal != nil {
			tr = w.treeAbsOf(m.TreeMarshal.TreeID)
			if len(m.TreeMarshal.Children) > 0 {
				root = w.nodeAbs(m.TreeMarshal.Children[0].TreeNodeID)
			}
		}
		if m.Roster != nil {
			ro = w.rosterAbsOf(m.Roster.ID)
		}
		if m.TreeMarshal != nil && !w.replyMatchesStore(m.TreeMarshal, m.Roster) {
			root = 4998 // not the tree the server holds
		}
		rec(fmt.Sprintf("RRespTree %d %d %d", tr, ro, root))
		return nil
	})
	p.r.RegisterProcessorFunc(onet.SendTreeMsgID, func(e *network.Envelope) error {
		m := e.Msg.(*onet.TreeMarshal)
		root := 4999
		if len(m.Children) > 0 {
			root = w.nodeAbs(m.Children[0].TreeNodeID)
		}
		if !w.replyMatchesStore(m, nil) {
			root = 4998
		}
		rec(fmt.Sprintf("RTreeMarshal %d %d %d", w.treeAbsOf(m.TreeID), w.rosterAbsOf(m.RosterID), root))
		return nil
	})
	p.r.RegisterProcessorFunc(onet.RequestRosterMsgID, func(e *network.Envelope) error {
		m := e.Msg.(*onet.RequestRoster)
		rec(fmt.Sprintf("RReqRoster %d", w.rosterAbsOf(m.RosterID)))
		return nil
	})
	p.r.RegisterProcessorFunc(onet.SendRosterMsgID, func(e *network.Envelope) error {
		m := e.Msg.(*onet.Roster)
		id := w.rosterAbsOf(m.ID)
		if id == 1 {
			// the genuine roster id: the members must be the genuine members
			ok := len(m.List) == len(w.roster.List)
			for i := 0; ok && i < len(m.List); i++ {
				ok = m.List[i].ID.Equal(w.roster.List[i].ID)
			}
			if !ok {
				id = 4998
			}
		}
		rec(fmt.Sprintf("RRoster %d", id))
		return nil
	})
	p.r.RegisterProcessorFunc(onet.ProtocolMsgID, func(e *network.Envelope) error {
		w.mu.Lock()
		w.pongs++
		w.mu.Unlock()
		return nil
	})
	p.r.RegisterProcessorFunc(network.MessageType(&Marker{}), func(e *network.Envelope) error {
		m := e.Msg.(*Marker)
		w.mu.Lock()
		ch := w.markers[m.N]
		w.mu.Unlock()
		if ch != nil {
			close(ch)
		}
		return nil
	})
}

func (w *world) srvAbs(si *network.ServerIdentity) int {
	w.mu.Lock()
	defer w.mu.Unlock()
	if si != nil {
		for n, id := range w.ids {
			if id.ID.Equal(si.ID) {
				return n
			}
		}
	}
	return 4999
}

// a tree description / roster the server sends is compared with what the server holds:
// a reply that differs from the stored tree is recorded under an unknown root / id
func dfsTM(tm *onet.TreeMarshal, out *[]string) {
	*out = append(*out, tm.TreeNodeID.String()+"/"+tm.ServerIdentityID.String())
	for _, c := range tm.Children {
		dfsTM(c, out)
	}
}

func (w *world) replyMatchesStore(tm *onet.TreeMarshal, ro *onet.Roster) bool {
	if !w.ov.VerifLocksFree()["treeStorage"] {
		return true // cannot look: the leaked mutex is reported by itself
	}
	t := w.ov.VerifTree(tm.TreeID)
	if t == nil || len(tm.Children) != 1 {
		return false
	}
	var a, b []string
	dfsTM(tm.Children[0], &a)
	t.Root.Visit(0, func(d int, tn *onet.TreeNode) {
		b = append(b, tn.ID.String()+"/"+tn.ServerIdentity.ID.String())
	})
	if strings.Join(a, " ") != strings.Join(b, " ") || !tm.RosterID.Equal(t.Roster.ID) {
		return false
	}
	if ro != nil {
		if !ro.ID.Equal(t.Roster.ID) || len(ro.List) != len(t.Roster.List) {
			return false
		}
		for i := range ro.List {
			if !ro.List[i].ID.Equal(t.Roster.List[i].ID) {
				return false
			}
		}
	}
	return true
}

func (w *world) treeAbsOf(id onet.TreeID) int {
	w.mu.Lock()
	defer w.mu.Unlock()
	if n, ok := w.treeAbs[id]; ok {
		return n
	}
	return 4999
}

func (w *world) rosterAbsOf(id onet.RosterID) int {
	w.mu.Lock()
	defer w.mu.Unlock()
	if n, ok := w.rosterAbs[id]; ok {
		return n
	}
	return 4999
}

const shortWait = 400 * time.Millisecond
const longWait = 8 * time.Second

// barrier: everything X sent to its peers before now has been recorded
func (w *world) drainPeers() bool {
	ok := true
	for n, p := range w.peers {
		_ = n
		w.mu.Lock()
		w.nextMark++
		k := w.nextMark
		ch := make(chan struct{})
		w.markers[k] = ch
		w.mu.Unlock()
		if _, err := w.x.Send(p.id, &Marker{N: k}); err != nil {
			ok = false
			continue
		}
		select {
		case <-ch:
		case <-time.After(longWait):
			ok = false
		}
	}
	return ok
}

// settle waits for the flush goroutines and the instance readers
func (w *world) settle() string {
	deadline := time.Now().Add(longWait)
	for atomic.LoadInt64(&w.flushDone) < atomic.LoadInt64(&w.treeSet) {
		if time.Now().After(deadline) {
			return "flush goroutine did not finish"
		}
		time.Sleep(100 * time.Microsecond)
	}
	// a sentinel through the queue of every live instance of the harness protocol
	w.mu.Lock()
	ps := make([]*proto, 0, len(w.protos))
	for _, p := range w.protos {
		ps = append(ps, p)
	}
	w.mu.Unlock()
	active, _ := w.activeSet()
	for _, p := range ps {
		if !active[p.Token().ID()] {
			continue
		}
		tr := w.ov.VerifTree(p.Token().TreeID)
		if tr == nil {
			continue
		}
		w.mu.Lock()
		w.nextSent--
		k := w.nextSent
		ch := make(chan struct{})
		w.sentinels[k] = ch
		w.mu.Unlock()
		buf, _ := network.Marshal(&Ping{N: k})
		_, msg, _ := network.Unmarshal(buf, suite)
		from := p.Token().ChangeTreeNodeID(tr.Root.ID)
		p.TreeNodeInstance.ProcessProtocolMsg(&onet.ProtocolMsg{From: from, To: p.Token(), Msg: msg,
			MsgType: network.MessageType(&Ping{})})
		select {
		case <-ch:
		case <-time.After(longWait):
			return "instance reader did not reach the sentinel"
		}
	}
	return ""
}

func (w *world) activeSet() (map[onet.TokenID]bool, map[onet.TokenID]bool) {
	a, d := map[onet.TokenID]bool{}, map[onet.TokenID]bool{}
	if !w.ov.VerifLocksFree()["instancesLock"] {
		return a, d
	}
	act, done := w.ov.VerifInstances()
	for _, id := range act {
		a[id] = true
	}
	for _, id := range done {
		d[id] = true
	}
	return a, d
}

var lockNames = []string{"instancesLock", "pendingTreeLock", "pendingMsgLock", "transmitMux", "pendingConfigsMut", "treeStorage"}

func (w *world) snapshot(o *obs) {
	// first let the peers' recorders finish (they look at the tree store), then probe the mutexes
	if !w.drainPeers() && o.Out == 0 {
		// the server cannot reach a listening peer any more: it has stopped serving
		o.Out = 2
		o.Note += " marker to a peer not delivered"
	}
	free := w.ov.VerifLocksFree()
	for i, n := range lockNames {
		if !free[n] {
			o.Locks = append(o.Locks, i)
		}
	}
	w.mu.Lock()
	o.ReplyOK = w.pongs == w.replies
	o.Sends = append([]string(nil), w.sends...)
	o.Delivs = append([]string(nil), w.delivs...)
	w.sends, w.delivs = nil, nil
	w.mu.Unlock()
	sort.Strings(o.Sends)
	sort.Strings(o.Delivs)
	if free["treeStorage"] {
		for _, n := range w.tracked {
			id := w.treeOf(n)
			code := w.ov.VerifTreeState(id)
			ro, root := 0, 0
			var nodes []string
			if code == 2 {
				t := w.ov.VerifTree(id)
				if t.Roster != nil {
					ro = w.rosterAbsOf(t.Roster.ID)
				}
				root = w.nodeAbs(t.Root.ID)
				t.Root.Visit(0, func(d int, tn *onet.TreeNode) {
					nodes = append(nodes, fmt.Sprintf("(%d, %d)", w.nodeAbs(tn.ID), w.srvAbs(tn.ServerIdentity)))
				})
			}
			o.Store = append(o.Store, fmt.Sprintf("mkSt %d %d %d %d %s", n, code, ro, root, lib.List(nodes)))
			if n >= 1 && n <= 3 {
				if code == 1 {
					o.Awaited = append(o.Awaited, n)
				}
				if code == 2 && !sameShape(w.ov.VerifTree(id), w.trees[n]) {
					o.Forged = append(o.Forged, n)
				} else if code == 2 {
					o.Genuine = append(o.Genuine, n)
				}
			}
			o.Removal = append(o.Removal, fmt.Sprintf("(%d, %s)", n, lib.Bool(w.ov.VerifRemovalPending(id))))
		}
	}
	if free["instancesLock"] {
		a, d := w.activeSet()
		for _, jt := range w.trackTok {
			jt := jt
			id := w.tok(&jt).ID()
			c := 0
			if d[id] {
				c = 2
			} else if a[id] {
				c = 1
			}
			o.Insts = append(o.Insts, fmt.Sprintf("(%s, %d)", tokTerm(&jt), c))
		}
	}
	o.Parked = -1
	if free["pendingMsgLock"] {
		o.Parked = len(w.ov.VerifPending())
	}
	if free["pendingTreeLock"] {
		o.PTM = w.ov.VerifPendingTreeMarshals()
	} else {
		o.PTM = w.ov.VerifPendingTreeMarshalsNoLock()
	}
}

// ---- executing one operation ----------------------------------------------------------

func (w *world) track(in *input) {
	seenT := map[int]bool{0: true, 1: true, 2: true, 3: true}
	w.tracked = []int{0, 1, 2, 3}
	addT := func(n int) {
		if !seenT[n] {
			seenT[n] = true
			w.tracked = append(w.tracked, n)
		}
	}
	seenK := map[jtok]bool{}
	addK := func(t *jtok) {
		if t != nil && !seenK[*t] {
			seenK[*t] = true
			w.trackTok = append(w.trackTok, *t)
			addT(t.Tr)
		}
	}
	for _, op := range in.Ops {
		addK(op.Tok)
		if op.M != nil {
			addK(op.M.To)
			addK(op.M.Dest)
			if op.M.TM != nil {
				addT(op.M.TM.Tr)
			}
			addT(op.M.Tree)
		}
	}
}

// grace period of the tree store in histories with ShortStore (production: 10 min)
const storeGrace = 100 * time.Millisecond

func (w *world) exec(i int, op jop, prior []jop) (o *obs) {
	o = &obs{Index: i}
	o.Tag = opTag(op, prior, w)
	run := func(f func()) {
		done := make(chan interface{}, 1)
		go func() {
			defer func() { done <- recover() }()
			f()
		}()
		wait := shortWait
		for tries := 0; ; tries++ {
			select {
			case r := <-done:
				if r != nil {
					o.Out = 1
					o.Note = fmt.Sprint(r)
				}
				return
			case <-time.After(wait):
				// blocked only if some overlay mutex is held
				held := false
				for _, f := range w.ov.VerifLocksFree() {
					if !f {
						held = true
					}
				}
				if held || tries >= 20 {
					o.Out = 2
					return
				}
			}
		}
	}
	switch op.K {
	case "elapse":
		// every removal scheduled so far fires (the model's [elapse])
		time.Sleep(5 * storeGrace)
	case "tree":
		run(func() { w.ov.RegisterTree(w.trees[op.Tree]) })
	case "done":
		id := w.tok(op.Tok).ID()
		w.mu.Lock()
		p := w.protos[id]
		w.mu.Unlock()
		if p == nil {
			// the model's LocalDone of a token without instance is a no-op on the tables
			run(func() {})
		} else {
			run(func() { p.Done() })
		}
	case "recv":
		msg, typ := w.message(op.M)
		if op.Cfg {
			typ = onet.ConfigMsgID
		} else if op.M.T == "config" {
			// a ConfigMsg under another envelope type
			typ = onet.RequestTreeMsgID
		}
		if w.net {
			p := w.peers[op.P]
			w.mu.Lock()
			w.nextMark++
			k := w.nextMark
			ch := make(chan struct{})
			w.markers[k] = ch
			w.mu.Unlock()
			sendErr := false
			if _, err := p.r.Send(w.x.ServerIdentity, msg, &Marker{N: k}); err != nil {
				// the server refuses / has dropped the connection of a listening peer
				o.Note = "noconn: " + err.Error()
				o.Out = 2
				sendErr = true
			}
			// the marker follows the message on the same connection: it is dispatched
			// when Process has returned. Never returned = some overlay mutex is held.
		waitMarker:
			for tries := 0; !sendErr; tries++ {
				select {
				case <-ch:
					break waitMarker
				case <-time.After(time.Second):
					held := false
					for _, f := range w.ov.VerifLocksFree() {
						if !f {
							held = true
						}
					}
					if (held && tries >= 1) || tries >= 20 {
						o.Out = 2
						break waitMarker
					}
				}
			}
		} else {
			env := &network.Envelope{ServerIdentity: w.idOf(op.P), MsgType: typ, Msg: msg}
			if pm, ok := msg.(*onet.ProtocolMsg); ok {
				env.Size = network.Size(len(pm.MsgSlice))
			}
			run(func() { w.ov.Process(env) })
		}
	}
	if o.Out == 0 {
		if s := w.settle(); s != "" {
			o.Out = 2
			o.Note = s
		}
	}
	w.snapshot(o)
	return o
}

// ---- tags: which recorded defect an operation can trigger ---------------------------------

func roNoKey(r *jro) bool {
	if r == nil {
		return false
	}
	for _, m := range r.L {
		if !m.K {
			return true
		}
	}
	return false
}

func opTag(op jop, prior []jop, w *world) string {
	if op.K != "recv" {
		return op.K
	}
	m := op.M
	var f []string
	switch m.T {
	case "proto":
		if m.To == nil {
			f = append(f, "tonil")
		}
		if m.From == nil {
			f = append(f, "fromnil")
		}
		if m.B == "garbage" {
			f = append(f, "garbage")
		}
		if m.Decl != "" && m.Decl != m.B {
			f = append(f, "decl-"+m.Decl+"-body-"+m.B)
		}
	case "resptree":
		if m.TM == nil {
			f = append(f, "tmnil")
		} else if len(m.TM.Ch) == 0 {
			f = append(f, "nochildren")
		}
		if m.RO == nil {
			f = append(f, "ronil")
		}
		if roNoKey(m.RO) {
			f = append(f, "nokey")
		}
	case "treemarshal":
		if len(m.TM.Ch) == 0 {
			f = append(f, "nochildren")
		}
	case "roster":
		if roNoKey(m.RO) {
			f = append(f, "nokey")
		}
		pend := false
		for _, q := range prior {
			if q.K == "recv" && q.M.T == "treemarshal" && q.M.TM.Ro == m.RO.ID {
				pend = true
				if len(q.M.TM.Ch) == 0 {
					f = append(f, "pending-nochildren")
				}
			}
		}
		if !pend {
			f = append(f, "orphan")
		}
	case "reqroster":
		if w != nil && w.ov.VerifLocksFree()["treeStorage"] {
			for _, n := range w.tracked {
				if w.ov.VerifTreeState(w.treeOf(n)) == 1 {
					f = append(f, "while-requested")
					break
				}
			}
		}
	}
	sort.Strings(f)
	return m.T + ":" + strings.Join(uniq(f), ",")
}

func uniq(s []string) []string {
	var out []string
	for i, x := range s {
		if i == 0 || x != s[i-1] {
			out = append(out, x)
		}
	}
	return out
}

// genuine descriptions (abstract) of the three trees
func genuineTM(n int) *jtm {
	switch n {
	case 1:
		return &jtm{Tr: 1, Ro: 1, Ch: []jnode{{N: 1, S: 1, Ch: []jnode{{N: 4, S: 4}, {N: 2, S: 2}}}}}
	case 2:
		return &jtm{Tr: 2, Ro: 1, Ch: []jnode{{N: 1, S: 1, Ch: []jnode{{N: 4, S: 4, Ch: []jnode{{N: 2, S: 2}}}}}}}
	default:
		return &jtm{Tr: 3, Ro: 1, Ch: []jnode{{N: 1, S: 1, Ch: []jnode{{N: 2, S: 2, Ch: []jnode{{N: 4, S: 4}}}}}}}
	}
}

func genuineRO() *jro {
	return &jro{ID: 1, L: []jmem{{1, true}, {4, true}, {2, true}}}
}

// the node that sends to X's node in tree n, and its server
func parentOfX(n int) int {
	if n == 3 {
		return 2
	}
	return 1
}

func sameTM(a, b *jtm) bool {
	x, _ := json.Marshal(a)
	y, _ := json.Marshal(b)
	return bytes.Equal(x, y)
}

// sameShape compares a stored tree with the genuine one: roster id, node ids,
// servers and shape
func sameShape(a, b *onet.Tree) bool {
	if a == nil || b == nil || a.Roster == nil || !a.Roster.ID.Equal(b.Roster.ID) {
		return false
	}
	var eq func(x, y *onet.TreeNode) bool
	eq = func(x, y *onet.TreeNode) bool {
		if !x.ID.Equal(y.ID) || !x.ServerIdentity.Equal(y.ServerIdentity) || len(x.Children) != len(y.Children) {
			return false
		}
		for i := range x.Children {
			if !eq(x.Children[i], y.Children[i]) {
				return false
			}
		}
		return true
	}
	return eq(a.Root, b.Root)
}

// cause of a canary failure, read off the server's state at the failure: the
// canary's tree is stored forged (F72 if the server had the tree, F73 if it was
// waiting for it), or it is still awaited and its sender was not asked (F71)
func cause(op jop, seen []*obs) string {
	o := seen[len(seen)-1]
	t := canaryTree(op)
	if op.Canary == "reqroster" {
		t = 1
	}
	for _, n := range o.Forged {
		if n == t {
			// a tree the server had (from the start, or received genuine earlier in this
			// history) has been replaced: the class of F72, not of F73
			for _, e := range seen[:len(seen)-1] {
				for _, g := range e.Genuine {
					if g == t {
						return "poison-known"
					}
				}
			}
			if t == 1 {
				return "poison-known"
			}
			return "bogus-requested"
		}
	}
	for _, n := range o.Awaited {
		if n == t {
			return "squat"
		}
	}
	return "unexplained"
}

// ---- Coq terms ----------------------------------------------------------------------------

func tokTerm(t *jtok) string {
	return fmt.Sprintf("(mkTok %d %d %d %d %d %d)", t.Ro, t.Tr, t.Pr, t.Sv, t.Rd, t.Nd)
}

func optTok(t *jtok) string {
	if t == nil {
		return "None"
	}
	return "(Some " + tokTerm(t) + ")"
}

func nodeTerm(n jnode) string {
	ch := make([]string, len(n.Ch))
	for i, c := range n.Ch {
		ch[i] = nodeTerm(c)
	}
	return fmt.Sprintf("(TM %d %d %s)", n.N, n.S, lib.List(ch))
}

func tmTerm(t *jtm) string {
	ch := make([]string, len(t.Ch))
	for i, c := range t.Ch {
		ch[i] = nodeTerm(c)
	}
	return fmt.Sprintf("(mkTMar %d %d %s)", t.Tr, t.Ro, lib.List(ch))
}

func roTerm(r *jro) string {
	l := make([]string, len(r.L))
	for i, m := range r.L {
		l[i] = fmt.Sprintf("mkMem %d %s", m.S, lib.Bool(m.K))
	}
	return fmt.Sprintf("(mkRo %d %s)", r.ID, lib.List(l))
}

func msgTerm(m *jmsg) string {
	switch m.T {
	case "proto":
		b := "BGarbage"
		switch m.B {
		case "ping", "pingreply":
			b = "BPing"
		case "other", "agg", "chan":
			b = "BOther"
		}
		decl := map[string]int{"": 0, "ping": 1, "other": 2, "agg": 3, "chan": 4, "unknown": 5}[m.Decl]
		return fmt.Sprintf("(MProto %s %s %s %d)", optTok(m.From), optTok(m.To), b, decl)
	case "reqtree":
		return fmt.Sprintf("(MReqTree %d %d)", m.Tree, m.Ver)
	case "resptree":
		tm, ro := "None", "None"
		if m.TM != nil {
			tm = "(Some " + tmTerm(m.TM) + ")"
		}
		if m.RO != nil {
			ro = "(Some " + roTerm(m.RO) + ")"
		}
		return fmt.Sprintf("(MRespTree %s %s)", tm, ro)
	case "treemarshal":
		return "(MTreeMarshal " + tmTerm(m.TM) + ")"
	case "reqroster":
		return fmt.Sprintf("(MReqRoster %d)", m.RID)
	case "roster":
		return "(MRoster " + roTerm(m.RO) + ")"
	case "config":
		return "(MConfig " + optTok(m.Dest) + ")"
	}
	panic("msg kind")
}

func opTerm(op jop, nilFirst bool) string {
	switch op.K {
	case "elapse":
		return "XElapse"
	case "tree":
		tm := genuineTM(op.Tree)
		return fmt.Sprintf("(XOp (LocalTree (mkTree %d %s %s)))", op.Tree, roTerm(genuineRO()), nodeTerm(tm.Ch[0]))
	case "done":
		return "(XOp (LocalDone " + tokTerm(op.Tok) + "))"
	}
	return fmt.Sprintf("(XOp (Recv %d %s %s %s))", op.P, lib.Bool(op.Cfg), lib.Bool(nilFirst), msgTerm(op.M))
}

func expectTerm(op jop) string {
	switch op.Canary {
	case "run":
		return fmt.Sprintf("(Some (XDeliverBy %s %d))", tokTerm(op.XTok), op.XFrom)
	case "ask":
		return fmt.Sprintf("(Some (XAskOrDeliver %d %d %s %d))", op.P, op.XTok.Tr, tokTerm(op.XTok), op.XFrom)
	case "reqtree":
		tm := genuineTM(op.M.Tree)
		return fmt.Sprintf("(Some (XSend %d (RRespTree %d %d %d)))", op.P, op.M.Tree, tm.Ro, tm.Ch[0].N)
	case "reqroster":
		return fmt.Sprintf("(Some (XSend %d (RRoster %d)))", op.P, op.M.RID)
	}
	return "None"
}

func obsTerm(o *obs) string {
	nl := make([]string, len(o.Locks))
	for i, l := range o.Locks {
		nl[i] = strconv.Itoa(l)
	}
	st := make([]string, len(o.Store))
	copy(st, o.Store)
	parked := o.Parked
	pk := "None"
	if parked >= 0 {
		pk = fmt.Sprintf("(Some %d)", parked)
	}
	return fmt.Sprintf("(mkObs %d %s %s %s %s %s %s %d %s %s)", o.Out, lib.List(nl), lib.List(o.Sends), lib.List(o.Delivs),
		lib.List(st), lib.List(o.Insts), pk, o.PTM, lib.List(o.Removal), lib.Bool(o.ReplyOK || o.Out == 1))
}

// ---- worker (sub-process) -----------------------------------------------------------------

func workerMain() {
	log.SetDebugVisible(0)
	log.OutputToBuf()
	rd := bufio.NewReaderSize(os.Stdin, 1<<20)
	out := bufio.NewWriter(os.Stdout)
	emit := func(v workerOut) {
		b, _ := json.Marshal(v)
		out.Write(b)
		out.WriteByte('\n')
		out.Flush()
	}
	for {
		line, err := rd.ReadBytes('\n')
		if len(line) > 0 {
			var in input
			if e := json.Unmarshal(line, &in); e != nil {
				emit(workerOut{Fail: "bad input: " + e.Error()})
			} else if in.Kind == "f26-stress" {
				runStress(&in, emit)
			} else if in.Kind == "race-deliver-done" {
				runRace(&in, emit)
			} else {
				runCase(&in, emit)
			}
		}
		if err != nil {
			return
		}
	}
}

// worlds for "proc" cases are built ahead of time (starting a server is mostly waiting)
type worldOrErr struct {
	w   *world
	err error
}

var spare chan worldOrErr

func nextWorld(netMode bool) (*world, error) {
	if netMode {
		return newWorld(true)
	}
	if spare == nil {
		spare = make(chan worldOrErr, 1)
		go func() {
			for {
				w, err := newWorld(false)
				spare <- worldOrErr{w, err}
			}
		}()
	}
	x := <-spare
	return x.w, x.err
}

func runCase(in *input, emit func(workerOut)) {
	w, err := nextWorld(in.Net)
	if err != nil {
		emit(workerOut{Fail: err.Error()})
		return
	}
	w.activate()
	// shut the servers down in the background: the next case has its own network
	defer func() { go w.close() }()
	w.track(in)
	if in.ShortStore {
		w.ov.VerifSetTreeTimeout(storeGrace)
	}
	delivered := map[string]bool{}
	for i, op := range in.Ops {
		o := w.exec(i, op, in.Ops[:i])
		for _, d := range o.Delivs {
			delivered[d] = true
		}
		if op.Canary != "" {
			o.Canary = canaryServed(op, o, delivered)
		}
		if in.Net {
			w.mu.Lock()
			o.Note += fmt.Sprintf(" pongs=%d", w.pongs)
			w.mu.Unlock()
		}
		emit(workerOut{Obs: o})
		if o.Out == 1 || (in.Net && o.Out == 2) {
			break
		}
		if !in.Continue && (o.Out != 0 || len(o.Locks) > 0 || !o.ReplyOK || (op.Canary != "" && !o.Canary)) {
			break
		}
	}
	emit(workerOut{Done: true})
}

func canaryServed(op jop, o *obs, delivered map[string]bool) bool {
	has := func(want string) bool {
		for _, s := range o.Sends {
			if s == want {
				return true
			}
		}
		return false
	}
	switch op.Canary {
	case "run":
		return delivered[fmt.Sprintf("(%s, %d)", tokTerm(op.XTok), op.XFrom)]
	case "ask":
		return delivered[fmt.Sprintf("(%s, %d)", tokTerm(op.XTok), op.XFrom)] ||
			has(fmt.Sprintf("(%d, RReqTree %d)", op.P, op.XTok.Tr))
	case "reqtree":
		tm := genuineTM(op.M.Tree)
		return has(fmt.Sprintf("(%d, RRespTree %d %d %d)", op.P, op.M.Tree, tm.Ro, tm.Ch[0].N))
	case "reqroster":
		return has(fmt.Sprintf("(%d, RRoster %d)", op.P, op.M.RID))
	}
	return false
}

// F26: deprecated TreeMarshal messages for a requested tree (scan of the instance
// table) while other messages create instances. The Go runtime aborts the process
// on a concurrent map iteration and write.
func runStress(in *input, emit func(workerOut)) {
	w, err := newWorld(false)
	if err != nil {
		emit(workerOut{Fail: err.Error()})
		return
	}
	w.activate()
	w.track(in)
	w.ov.RegisterTree(w.trees[1])
	w.ov.VerifExpectTree(w.treeOf(2))
	tm, typ := w.message(&jmsg{T: "treemarshal", TM: &jtm{Tr: 2, Ro: 9, Ch: genuineTM(2).Ch}})
	stop := make(chan struct{})
	var wg sync.WaitGroup
	wg.Add(2)
	go func() {
		defer wg.Done()
		for {
			select {
			case <-stop:
				return
			default:
			}
			w.ov.Process(&network.Envelope{ServerIdentity: w.idOf(3), MsgType: typ, Msg: tm})
		}
	}()
	go func() {
		defer wg.Done()
		for r := 100; ; r++ {
			select {
			case <-stop:
				return
			default:
			}
			k := &jtok{Ro: 1, Tr: 1, Pr: 1, Rd: r, Nd: 4}
			f := *k
			f.Nd = 1
			msg, t2 := w.message(&jmsg{T: "proto", From: &f, To: k, B: "ping"})
			w.ov.Process(&network.Envelope{ServerIdentity: w.idOf(1), MsgType: t2, Msg: msg})
		}
	}()
	time.Sleep(1500 * time.Millisecond)
	close(stop)
	wg.Wait()
	emit(workerOut{Extra: fmt.Sprintf("survived scans=%d scans-with-instancesLock-free=%d", atomic.LoadInt64(&w.scans), atomic.LoadInt64(&w.scanFree))})
	emit(workerOut{Done: true})
	os.Exit(0) // thousands of live instances: do not wait for a clean shutdown
}

// race-deliver-done: a peer's protocol message is being handed to an instance (held at
// the wake-up of the instance's reader, schedule point tni.notify) while the instance is
// closed. ProcessProtocolMsg checks "closing", appends and wakes the reader in one
// critical section, so the closer has to wait; if the wake-up happened outside it, the
// send on the channel that the closer has closed would panic in a goroutine without
// recover. Everything goes through real TCP connections; the exit of this process is the
// crash oracle.
type raceOut struct {
	Hit         bool   `json:"hit"`          // the delivery reached the wake-up
	DoneBlocked bool   `json:"done_blocked"` // the closer was still waiting after 300 ms (expected: it needs the mutex)
	Served      bool   `json:"served"`
	Hung        bool   `json:"hung"`          // the closer, the delivery or a goroutine never returned
	Cut         string `json:"cut,omitempty"` // the stage at which the scenario stopped being possible
	Started     bool   `json:"started"`       // the server was up and the scenario began
	Note        string `json:"note,omitempty"`
}

func (w *world) netSend(p int, m *jmsg) chan struct{} {
	msg, _ := w.message(m)
	w.mu.Lock()
	w.nextMark++
	k := w.nextMark
	ch := make(chan struct{})
	w.markers[k] = ch
	w.mu.Unlock()
	if _, err := w.peers[p].r.Send(w.x.ServerIdentity, msg, &Marker{N: k}); err != nil {
		close(ch)
	}
	return ch
}

func waitCh(ch chan struct{}, d time.Duration) bool {
	select {
	case <-ch:
		return true
	case <-time.After(d):
		return false
	}
}

func runRace(in *input, emit func(workerOut)) {
	res := raceOut{}
	finish := func() {
		b, _ := json.Marshal(res)
		emit(workerOut{Extra: string(b)})
		emit(workerOut{Done: true})
	}
	w, err := newWorld(true)
	if err != nil {
		emit(workerOut{Fail: err.Error()})
		return
	}
	w.activate()
	res.Started = true
	canary := legitPing(1, 90, "pingreply")
	canary.Canary, canary.XTok, canary.XFrom = "run", legitTok(1, 90), 1
	in.Ops = []jop{legitPing(1, 11, "ping"), legitPing(2, 12, "ping"), canary}
	w.track(in)
	w.ov.RegisterTree(w.trees[1])
	tree, round := 1, 11
	if in.Variant == "flush" {
		tree, round = 2, 12
	}
	target := w.tok(legitTok(tree, round)).ID()
	// (1) a legitimate run with a live instance (done / close), or a parked message (flush)
	first := legitPing(tree, round, "ping")
	// from here on every step is one the unchanged server performs: a step that does not
	// happen within the deadline is an observation (cut), not a reason to drop the case
	if !waitCh(w.netSend(first.P, first.M), 3*longWait) {
		res.Cut, res.Hung = "first-message-not-processed", true
		finish()
		os.Exit(0)
	}
	if s := w.settle(); s != "" {
		res.Cut, res.Hung, res.Note = "first-message-not-settled", true, s
		finish()
		os.Exit(0)
	}
	// (2) hold the next delivery to that instance at the wake-up
	gate := w.sched.Block("tni.notify", 1, func(args []interface{}) bool {
		n, ok := args[0].(*onet.TreeNodeInstance)
		return ok && n.Token().ID().Equal(target)
	})
	var sent chan struct{}
	if in.Variant == "flush" {
		r := legitResp(2)
		sent = w.netSend(r.P, r.M) // handleSendTree -> RegisterTree -> flush goroutine -> TransmitMsg
	} else {
		sent = w.netSend(first.P, first.M)
	}
	if !gate.WaitHit(3 * longWait) {
		// on the unchanged tree the wake-up is always reached: the legitimate message was
		// not handed to the instance (served = false)
		gate.Release()
		res.Cut = "delivery-did-not-reach-the-wake-up"
		finish()
		os.Exit(0)
	}
	res.Hit = true
	// (3) close the instance meanwhile
	w.mu.Lock()
	p := w.protos[target]
	w.mu.Unlock()
	closed := make(chan struct{})
	go func() {
		defer close(closed)
		if in.Variant == "close" {
			w.ov.Close()
		} else if p != nil {
			p.Done()
		}
	}()
	res.DoneBlocked = !waitCh(closed, 300*time.Millisecond)
	// (4) let the delivery go on
	gate.Release()
	if !waitCh(closed, 3*longWait) {
		res.Hung = true
		res.Note = "the closer never returned"
	}
	if !waitCh(sent, 3*longWait) {
		res.Hung = true
		res.Note += " the delivery never returned"
	}
	// the flush goroutine (variant flush) and the instance readers run to quiescence: a
	// panic in one of them ends the process here
	if s := w.settle(); s != "" {
		res.Hung = true
		res.Note += " " + s
	}
	// (5) the server still serves
	if in.Variant == "close" {
		res.Served = true // the overlay has been closed by the harness itself
	} else {
		o := w.exec(2, canary, in.Ops[:2])
		for _, d := range o.Delivs {
			if d == fmt.Sprintf("(%s, %d)", tokTerm(canary.XTok), canary.XFrom) {
				res.Served = true
			}
		}
		if o.Out == 2 {
			res.Hung = true
		}
		if !o.ReplyOK || len(o.Locks) > 0 {
			res.Served = false
			res.Note += fmt.Sprintf(" canary: reply_ok=%v locks=%v", o.ReplyOK, o.Locks)
		}
	}
	finish()
	os.Exit(0)
}

// ---- parent side: talking to workers ------------------------------------------------------

type worker struct {
	cmd    *exec.Cmd
	in     io.WriteCloser
	out    *bufio.Reader
	stderr *bytes.Buffer
}

var shared *worker

func startWorker() *worker {
	cmd := exec.Command(os.Args[0], "-c07worker")
	in, _ := cmd.StdinPipe()
	op, _ := cmd.StdoutPipe()
	eb := &bytes.Buffer{}
	cmd.Stderr = eb
	if err := cmd.Start(); err != nil {
		panic(err)
	}
	return &worker{cmd: cmd, in: in, out: bufio.NewReaderSize(op, 1<<20), stderr: eb}
}

func (wk *worker) kill() {
	wk.in.Close()
	wk.cmd.Process.Kill()
	wk.cmd.Wait()
}

// runOn sends one case and collects the observations; died = the process ended
// before the case was complete
func runOn(wk *worker, raw []byte) (obsl []*obs, extra string, fail string, died bool, trace string) {
	wk.in.Write(append(append([]byte{}, raw...), '\n'))
	type lineT struct {
		b   []byte
		err error
	}
	for {
		ch := make(chan lineT, 1)
		go func() {
			b, err := wk.out.ReadBytes('\n')
			ch <- lineT{b, err}
		}()
		var l lineT
		select {
		case l = <-ch:
		case <-time.After(120 * time.Second):
			wk.kill()
			return obsl, extra, "worker timed out", false, ""
		}
		if len(l.b) > 0 {
			var wo workerOut
			if json.Unmarshal(l.b, &wo) == nil {
				if wo.Obs != nil {
					obsl = append(obsl, wo.Obs)
				}
				if wo.Extra != "" {
					extra = wo.Extra
				}
				if wo.Fail != "" {
					fail = wo.Fail
				}
				if wo.Done {
					return obsl, extra, fail, false, ""
				}
				if wo.Fail != "" {
					return obsl, extra, fail, false, ""
				}
			}
		}
		if l.err != nil {
			wk.cmd.Wait()
			return obsl, extra, fail, true, firstPanicLine(wk.stderr.String())
		}
	}
}

func firstPanicLine(s string) string {
	for _, l := range strings.Split(s, "\n") {
		if strings.HasPrefix(l, "panic:") || strings.HasPrefix(l, "fatal error:") {
			return l
		}
	}
	if len(s) > 200 {
		s = s[:200]
	}
	return s
}

func run(raw json.RawMessage) lib.Case {
	var in input
	if err := json.Unmarshal(raw, &in); err != nil {
		panic(err)
	}
	var wk *worker
	private := in.Net || in.Kind != ""
	if private {
		wk = startWorker()
	} else {
		if shared == nil {
			shared = startWorker()
		}
		wk = shared
	}
	t0 := time.Now()
	os_, extra, fail, died, trace := runOn(wk, raw)
	if os.Getenv("VERIF_DEBUG") != "" {
		fmt.Fprintf(os.Stderr, "%-40s ops=%d obs=%d net=%v %v\n", in.Name, len(in.Ops), len(os_), in.Net, time.Since(t0))
	}
	if private {
		wk.kill()
	} else if died || fail == "worker timed out" {
		shared = nil
	}
	mode := "proc"
	if in.Net {
		mode = "net"
	}
	timedOut := fail == "worker timed out"
	abnormal := func(class string, crashed, hung bool, what string) lib.Case {
		return lib.Case{Coq: fmt.Sprintf("mkAbnormal %s %s", lib.Bool(crashed), lib.Bool(hung)), Class: class,
			Obs: map[string]interface{}{"what": what, "process": trace, "worker": extra}, Nontrivial: true, Key: class + what}
	}
	if in.Kind == "f26-stress" {
		aborted := died && strings.Contains(trace, "concurrent map")
		freeScans := strings.Contains(extra, "scans-with-instancesLock-free=") && !strings.HasSuffix(extra, "free=0")
		switch {
		case died && !aborted:
			// the process died, but not of the recorded race: a crash of its own
			return abnormal("f26-stress/died-otherwise", true, false, "process died during the stress run")
		case timedOut:
			return abnormal("f26-stress/hung", false, true, "stress run did not finish")
		case fail != "" && extra == "":
			// the server could not even be started: nothing has been observed
			return lib.Case{Discard: true, Class: "f26-stress", Obs: fail}
		}
		coq := fmt.Sprintf("mkStress %s %s", lib.Bool(aborted), lib.Bool(freeScans))
		return lib.Case{Coq: coq, Class: "f26-stress/" + map[bool]string{true: "aborted", false: "survived"}[aborted],
			Obs: map[string]interface{}{"trace": trace, "worker": extra}, Nontrivial: true, Key: "f26"}
	}
	if in.Kind == "race-deliver-done" {
		var ro raceOut
		json.Unmarshal([]byte(extra), &ro)
		class := "race-deliver-done/" + in.Variant
		if !died && !timedOut && !ro.Started {
			// the server could not even be started: nothing has been observed
			return lib.Case{Discard: true, Class: class, Obs: ro.Note + " " + fail}
		}
		variant := map[string]int{"done": 0, "close": 1, "flush": 2}[in.Variant]
		hung := ro.Hung || timedOut
		verdict := "ok"
		switch {
		case died:
			verdict = "crash"
		case hung:
			verdict = "hung"
		case !ro.Served:
			verdict = "unserved"
		}
		if ro.Cut != "" {
			verdict += "+cut:" + ro.Cut
		}
		coq := fmt.Sprintf("mkRace %d %s %s %s", variant, lib.Bool(died), lib.Bool(hung), lib.Bool(ro.Served))
		return lib.Case{Coq: coq, Class: class + "/" + verdict,
			Obs: map[string]interface{}{"process": trace, "worker": ro}, Nontrivial: true, Key: "race-" + in.Variant + verdict}
	}
	if fail != "" && !timedOut && len(os_) == 0 {
		// bad input / the server could not be started: nothing has been observed
		return lib.Case{Discard: true, Class: in.State + "/" + mode, Obs: fail}
	}
	n := len(os_)
	if died || timedOut {
		// the operation after the last complete observation killed (or hung) the process
		if n >= len(in.Ops) {
			// ... after the last operation: a goroutine the history left behind
			return abnormal(fmt.Sprintf("%s/%s/after-the-history", in.State, mode), died, timedOut,
				"the process died / hung after the last operation of the history")
		}
		o := &obs{Index: n, Out: 1, Parked: -1, Note: trace, ReplyOK: true, Tag: opTag(in.Ops[n], in.Ops[:n], nil)}
		if timedOut {
			o.Out, o.Note = 2, "no observation within the worker's deadline"
		}
		os_ = append(os_, o)
		n++
	}
	ops := in.Ops[:n]
	var opTerms, obsTerms []string
	verdict := "ok"
	for i, op := range ops {
		o := os_[i]
		nf := op.K == "recv" && op.M.T == "reqroster" && o.Out == 1
		full := "true"
		if (died || timedOut) && i == n-1 {
			full = "false" // no snapshot after the death / hang of the process
		}
		opTerms = append(opTerms, fmt.Sprintf("(%s, %s, %s)", opTerm(op, nf), expectTerm(op), full))
		obsTerms = append(obsTerms, obsTerm(o))
		if verdict == "ok" {
			switch {
			case o.Out == 1:
				verdict = "crash@" + o.Tag
			case o.Out == 2 && strings.HasPrefix(o.Note, "noconn"):
				verdict = "noconn@" + o.Tag // the server refuses the connection of a listening peer
			case o.Out == 2 && strings.Contains(o.Note, "marker to a peer not delivered"):
				verdict = "mute@" + o.Tag // the server cannot reach a listening peer
			case o.Out == 2 && len(o.Locks) == 0:
				verdict = "hang@" + o.Tag // did not return, although no overlay mutex is held
			case o.Out == 2 || len(o.Locks) > 0:
				verdict = "leak@" + o.Tag
			case !o.ReplyOK:
				verdict = "noreply@" + o.Tag // the handler's reply did not reach its parent
			case op.Canary != "" && !o.Canary:
				verdict = fmt.Sprintf("canary-%s%d:%s", op.Canary, canaryTree(op), cause(op, os_[:i+1]))
			}
		}
	}
	coq := fmt.Sprintf("mkCase %s %s", lib.List(opTerms), lib.List(obsTerms))
	class := fmt.Sprintf("%s/%s/%s", in.State, mode, verdict)
	human := map[string]interface{}{"verdict": verdict, "ops_run": n, "ops_given": len(in.Ops)}
	if n > 0 {
		human["last"] = os_[n-1]
	}
	return lib.Case{Coq: coq, Class: class, Obs: human, Nontrivial: n > 2, Key: coq}
}

func canaryTree(op jop) int {
	switch op.Canary {
	case "run", "ask":
		return op.XTok.Tr
	case "reqtree":
		return op.M.Tree
	}
	return op.M.RID
}

// ---- generator ------------------------------------------------------------------------------

func legitTok(tree, round int) *jtok { return &jtok{Ro: 1, Tr: tree, Pr: 1, Rd: round, Nd: 4} }

func legitPing(tree, round int, body string) jop {
	k := legitTok(tree, round)
	f := *k
	f.Nd = parentOfX(tree)
	return jop{K: "recv", P: parentOfX(tree), M: &jmsg{T: "proto", From: &f, To: k, B: body}}
}

func legitResp(tree int) jop {
	return jop{K: "recv", P: parentOfX(tree), M: &jmsg{T: "resptree", TM: genuineTM(tree), RO: genuineRO()}}
}

// the three server states: tree 1 known, tree 2 requested from its root
func statePrefix(state string) []jop {
	ops := []jop{{K: "tree", Tree: 1}, legitPing(2, 12, "ping")}
	switch state {
	case "midrun":
		ops = append(ops, legitPing(1, 11, "ping"))
	case "done":
		ops = append(ops, legitPing(1, 10, "ping"), jop{K: "done", Tok: legitTok(1, 10)})
	case "mixed":
		ops = append(ops, legitPing(1, 10, "ping"), legitPing(1, 11, "ping"), jop{K: "done", Tok: legitTok(1, 10)})
	}
	return ops
}

func canaries(netMode bool) []jop {
	mark := func(op jop, c string) jop { op.Canary = c; return op }
	body := "ping"
	if netMode {
		body = "pingreply"
	}
	runOn := func(op jop, c string, tree, round int) jop {
		op.Canary = c
		op.XTok = legitTok(tree, round)
		op.XFrom = parentOfX(tree)
		return op
	}
	return []jop{
		mark(jop{K: "recv", P: 3, M: &jmsg{T: "reqtree", Tree: 1, Ver: 1}}, "reqtree"),
		runOn(legitPing(1, 90, body), "run", 1, 90),
		// a run on the tree that was requested from its root when the history began: the root answers now
		legitResp(2),
		runOn(legitPing(2, 91, body), "run", 2, 91),
		// a run on a tree the server has never heard of from an honest peer: it must ask the sender
		runOn(legitPing(3, 92, body), "ask", 3, 92),
		runOn(legitResp(3), "run", 3, 92),
		mark(jop{K: "recv", P: 3, M: &jmsg{T: "reqroster", RID: 1}}, "reqroster"),
	}
}

type gen struct {
	rng   *rand.Rand
	avoid bool // stay outside the input classes of the recorded defects
	net   bool
}

func (g *gen) pick(xs ...int) int { return xs[g.rng.Intn(len(xs))] }

func (g *gen) token(dest bool) *jtok {
	t := &jtok{
		Ro: g.pick(0, 1, 1, 9),
		Tr: g.pick(0, 1, 1, 1, 2, 2, 3, 7, 8),
		Pr: g.pick(1, 1, 1, 0, 5),
		Sv: g.pick(0, 0, 0, 6),
		Rd: g.pick(0, 10, 11, 11, 12, 20, 21, 22, 23),
		Nd: g.pick(4, 4, 4, 1, 2, 3, 0, 9),
	}
	if !dest {
		t.Nd = g.pick(1, 1, 1, 2, 4, 3, 0, 9)
	}
	return t
}

func (g *gen) optToken(dest bool) *jtok {
	p := 12
	if g.avoid && dest {
		return g.token(dest)
	}
	if g.rng.Intn(p) == 0 {
		return nil
	}
	return g.token(dest)
}

func (g *gen) subtree(depth int) jnode {
	n := jnode{N: g.pick(1, 2, 4, 3, 0, 9, 5), S: g.pick(1, 2, 4, 3, 5, 6)}
	if depth > 0 {
		for i := g.rng.Intn(3); i > 0; i-- {
			n.Ch = append(n.Ch, g.subtree(depth-1))
		}
	}
	return n
}

func (g *gen) tmarshal() *jtm {
	switch g.rng.Intn(10) {
	case 0, 1, 2:
		return genuineTM(g.pick(1, 2, 2, 3))
	case 3:
		// genuine shape under another tree id
		tm := *genuineTM(g.pick(1, 2, 3))
		if g.avoid {
			tm.Tr = g.pick(7, 8, 0)
		} else {
			tm.Tr = g.pick(1, 2, 3, 7, 0)
		}
		return &tm
	case 4:
		if !g.avoid {
			return &jtm{Tr: g.pick(1, 2, 3, 7), Ro: g.pick(1, 5, 0)}
		}
	case 5:
		// consistent bogus tree: one node on the hostile server, its own roster
		tr := g.pick(7, 8)
		if !g.avoid {
			tr = g.pick(1, 2, 2, 3, 7)
		}
		return &jtm{Tr: tr, Ro: 5, Ch: []jnode{{N: 3, S: 3}}}
	}
	tm := &jtm{Tr: g.pick(2, 2, 7, 8, 0), Ro: g.pick(1, 1, 5, 0, 9)}
	if !g.avoid {
		tm.Tr = g.pick(1, 2, 2, 3, 7, 0)
	}
	for i := 1 + g.rng.Intn(2); i > 0; i-- {
		tm.Ch = append(tm.Ch, g.subtree(2))
	}
	return tm
}

func (g *gen) roster() *jro {
	switch g.rng.Intn(8) {
	case 0, 1, 2:
		return genuineRO()
	case 3:
		return &jro{ID: 5, L: []jmem{{3, true}}}
	case 4:
		if !g.avoid {
			r := genuineRO()
			r.L[g.rng.Intn(3)].K = false
			return r
		}
	case 5:
		return &jro{ID: g.pick(1, 5, 9, 0)}
	}
	r := &jro{ID: g.pick(1, 5, 5, 9, 0)}
	if r.ID == 1 {
		return genuineRO()
	}
	for i := g.rng.Intn(4); i > 0; i-- {
		r.L = append(r.L, jmem{S: g.pick(1, 2, 3, 4, 5, 6), K: g.avoid || g.rng.Intn(6) != 0})
	}
	return r
}

func (g *gen) envelope() jop {
	op := jop{K: "recv", P: 3}
	if g.rng.Intn(25) == 0 {
		op.P = 0 // an identity where nothing listens (every send to it costs 25 connection attempts)
	}
	if g.net && op.P == 0 {
		op.P = 3
	}
	switch g.rng.Intn(14) {
	case 0, 1, 2, 3:
		op.M = &jmsg{T: "proto", From: g.optToken(false), To: g.optToken(true), B: []string{"ping", "ping", "ping", "other", "garbage", "agg", "agg", "chan"}[g.rng.Intn(8)]}
		if g.rng.Intn(4) == 0 {
			// the declared message type is not the type of the encoded body
			op.M.Decl = []string{"ping", "ping", "other", "agg", "chan", "unknown"}[g.rng.Intn(6)]
		}
	case 4, 5:
		op.M = &jmsg{T: "reqtree", Tree: g.pick(0, 1, 1, 2, 3, 7), Ver: g.pick(0, 1, 1, 2)}
	case 6, 7, 8:
		m := &jmsg{T: "resptree", TM: g.tmarshal(), RO: g.roster()}
		if g.rng.Intn(12) == 0 {
			m.TM = nil
		}
		if g.rng.Intn(12) == 0 {
			m.RO = nil
		}
		op.M = m
	case 9:
		op.M = &jmsg{T: "treemarshal", TM: g.tmarshal()}
	case 10:
		op.M = &jmsg{T: "reqroster", RID: g.pick(0, 1, 1, 5, 9)}
		if g.avoid {
			op.M = &jmsg{T: "reqtree", Tree: g.pick(1, 2, 7), Ver: 0}
		}
	case 11:
		op.M = &jmsg{T: "roster", RO: g.roster()}
		if g.avoid {
			op.M = &jmsg{T: "config", Dest: g.optToken(true)}
		}
	case 12:
		op.M = &jmsg{T: "config", Dest: g.optToken(true)}
		if !g.net && g.rng.Intn(3) == 0 {
			op.Cfg = false // a ConfigMsg under another type
		} else {
			op.Cfg = true
		}
	default:
		// an envelope whose type says "config" but carries something else
		op.M = &jmsg{T: "reqtree", Tree: 1, Ver: 1}
		op.Cfg = !g.net
	}
	return op
}

func (g *gen) history(state string) input {
	n := 1 + g.rng.Intn(30)
	in := input{State: state, Net: g.net, Ops: statePrefix(state)}
	// one history in four carries the late-roster sequence on the awaited tree 2, woven into
	// the random envelopes: a forged description queued for an unknown roster, the genuine
	// tree arriving, the roster arriving afterwards
	weave := map[int]jop{}
	if g.rng.Intn(4) == 0 && n >= 3 {
		seq := lateRoster(2, g.rng.Intn(3) == 0)
		pos := g.rng.Perm(n)[:3]
		sort.Ints(pos)
		for j, q := range pos {
			weave[q] = seq[j]
		}
	}
	for i := 0; i < n; i++ {
		if op, ok := weave[i]; ok {
			in.Ops = append(in.Ops, op)
			continue
		}
		if g.rng.Intn(12) == 0 {
			// local events in between: the running instance finishes
			in.Ops = append(in.Ops, jop{K: "done", Tok: legitTok(1, 11)})
			continue
		}
		in.Ops = append(in.Ops, g.envelope())
	}
	in.Ops = append(in.Ops, canaries(g.net)...)
	in.Name = fmt.Sprintf("%s-%d", state, n)
	return in
}

// lateRoster: a forged description of an awaited tree is queued for an unknown roster, the
// genuine tree arrives (from its root, or registered by a local service), then the roster
// of the forged description arrives: the queued description must not be used any more
func lateRoster(tree int, local bool) []jop {
	arrive := legitResp(tree)
	if local {
		arrive = jop{K: "tree", Tree: tree}
	}
	return []jop{
		{K: "recv", P: 3, M: &jmsg{T: "treemarshal", TM: &jtm{Tr: tree, Ro: 5, Ch: []jnode{{N: 3, S: 3}}}}},
		arrive,
		{K: "recv", P: 3, M: &jmsg{T: "roster", RO: &jro{ID: 5, L: []jmem{{3, true}}}}},
	}
}

var states = []string{"idle", "midrun", "done", "mixed"}

func generate(rng *rand.Rand, tier string) []interface{} {
	nproc, nnet := 300, 28
	if tier != "quick" {
		nproc, nnet = 6000, 400
	}
	var ins []interface{}
	for i := 0; i < nproc; i++ {
		g := &gen{rng: rng, avoid: i%2 == 0}
		ins = append(ins, g.history(states[i%len(states)]))
	}
	for i := 0; i < nnet; i++ {
		g := &gen{rng: rng, avoid: i%3 != 0, net: true}
		ins = append(ins, g.history(states[i%len(states)]))
	}
	if tier != "quick" {
		for i := 0; i < 30; i++ {
			v := []string{"done", "close", "flush"}[i%3]
			ins = append(ins, input{Name: fmt.Sprintf("race-deliver-done-%s-%d", v, i), State: "midrun", Kind: "race-deliver-done", Variant: v})
		}
	}
	return ins
}

// refutation witnesses of Overlay/RobustProofs.v and regression inputs
func corpus() []interface{} {
	var ins []interface{}
	hist := func(name, state string, netMode bool, ops ...jop) {
		in := input{Name: name, State: state, Net: netMode, Ops: statePrefix(state)}
		in.Ops = append(in.Ops, ops...)
		in.Ops = append(in.Ops, canaries(netMode)...)
		ins = append(ins, in)
	}
	recv := func(p int, m *jmsg) jop { return jop{K: "recv", P: p, M: m} }
	// two runs on tree 1, one finished (round 10) and one running (round 11); a late /
	// replayed message for the finished run; the grace period of the tree store elapses;
	// the tree request must still be answered and the running instance still be served
	for _, netMode := range []bool{false, true} {
		for _, late := range []string{"ping", "other"} {
			in := input{Name: "late-" + late + "-to-finished-run-then-store-timeout", State: "mixed", Net: netMode, ShortStore: true,
				Ops: statePrefix("mixed")}
			live := legitPing(1, 11, "ping")
			live.Canary, live.XTok, live.XFrom = "run", legitTok(1, 11), parentOfX(1)
			in.Ops = append(in.Ops, legitPing(1, 10, late), jop{K: "elapse"},
				jop{K: "recv", P: 3, M: &jmsg{T: "reqtree", Tree: 1, Ver: 1}, Canary: "reqtree"}, live, jop{K: "elapse"})
			in.Ops = append(in.Ops, canaries(netMode)...)
			ins = append(ins, in)
		}
	}
	for _, netMode := range []bool{false, true} {
		for _, st := range []string{"idle", "midrun", "done"} {
			hist("canaries-only", st, netMode)
		}
		// F05
		hist("f05-to-nil", "idle", netMode, recv(3, &jmsg{T: "proto", From: &jtok{Ro: 1, Tr: 1, Pr: 1, Rd: 20, Nd: 1}, B: "ping"}))
		// F06, solicited and deprecated path
		hist("f06-no-children", "idle", netMode, recv(3, &jmsg{T: "resptree", TM: &jtm{Tr: 2, Ro: 1}, RO: genuineRO()}))
		hist("f06-no-children-deprecated", "idle", netMode,
			recv(3, &jmsg{T: "treemarshal", TM: &jtm{Tr: 2, Ro: 5}}),
			recv(3, &jmsg{T: "roster", RO: &jro{ID: 5, L: []jmem{{3, true}}}}))
		hist("f06-no-children-via-instance-roster", "midrun", netMode, recv(3, &jmsg{T: "treemarshal", TM: &jtm{Tr: 2, Ro: 1}}))
		// F07
		hist("f07-roster-request-while-requested", "idle", netMode, recv(3, &jmsg{T: "reqroster", RID: 9}))
		// F08
		hist("f08-orphan-roster", "idle", netMode, recv(3, &jmsg{T: "roster", RO: &jro{ID: 5, L: []jmem{{3, true}}}}),
			recv(3, &jmsg{T: "roster", RO: genuineRO()}))
		// F70
		nokey := genuineRO()
		nokey.L[2].K = false
		hist("f70-member-without-key", "idle", netMode, recv(3, &jmsg{T: "resptree", TM: genuineTM(2), RO: nokey}))
		// F71
		hist("f71-squat", "idle", netMode, recv(3, &jmsg{T: "proto", From: &jtok{Ro: 1, Tr: 3, Pr: 1, Rd: 20, Nd: 2}, To: legitTok(3, 20), B: "ping"}))
		// F72, both paths
		hist("f72-poison-known-tree", "idle", netMode,
			recv(3, &jmsg{T: "resptree", TM: &jtm{Tr: 1, Ro: 5, Ch: []jnode{{N: 3, S: 3}}}, RO: &jro{ID: 5, L: []jmem{{3, true}}}}))
		hist("f72-poison-known-tree-deprecated", "midrun", netMode,
			recv(3, &jmsg{T: "treemarshal", TM: &jtm{Tr: 1, Ro: 5, Ch: []jnode{{N: 3, S: 3}}}}),
			recv(3, &jmsg{T: "roster", RO: &jro{ID: 5, L: []jmem{{3, true}}}}))
		// F73 (known finding: content of a requested tree is not checked against its id)
		hist("f73-bogus-requested-tree", "idle", netMode,
			recv(3, &jmsg{T: "resptree", TM: &jtm{Tr: 2, Ro: 5, Ch: []jnode{{N: 3, S: 3}}}, RO: &jro{ID: 5, L: []jmem{{3, true}}}}))
		// regression: things that must be harmless
		hist("harmless-mix", "mixed", netMode,
			recv(3, &jmsg{T: "proto", To: legitTok(1, 21), B: "ping"}),
			recv(3, &jmsg{T: "proto", From: &jtok{Ro: 1, Tr: 1, Pr: 1, Rd: 21, Nd: 9}, To: legitTok(1, 21), B: "ping"}),
			recv(3, &jmsg{T: "proto", From: &jtok{Ro: 1, Tr: 1, Pr: 1, Rd: 10, Nd: 1}, To: legitTok(1, 10), B: "ping"}),
			recv(3, &jmsg{T: "proto", From: &jtok{Ro: 1, Tr: 1, Pr: 5, Rd: 22, Nd: 1}, To: &jtok{Ro: 1, Tr: 1, Pr: 5, Rd: 22, Nd: 4}, B: "ping"}),
			recv(3, &jmsg{T: "proto", From: &jtok{Ro: 1, Tr: 1, Pr: 1, Rd: 23, Nd: 1}, To: &jtok{Ro: 1, Tr: 1, Pr: 1, Rd: 23, Nd: 9}, B: "ping"}),
			recv(3, &jmsg{T: "resptree"}),
			recv(3, &jmsg{T: "resptree", TM: genuineTM(3), RO: genuineRO()}),
			recv(3, &jmsg{T: "reqtree", Tree: 2, Ver: 1}),
			recv(3, &jmsg{T: "reqtree", Tree: 1, Ver: 0}),
			recv(3, &jmsg{T: "config"}),
			recv(3, &jmsg{T: "roster", RO: &jro{}}))
	}
	// the declared message type differs from the encoded one: handler-, aggregate- and
	// channel-registered types, on a running instance and on a new one
	for _, netMode := range []bool{false, true} {
		for _, mm := range [][2]string{{"ping", "other"}, {"ping", "agg"}, {"ping", "chan"}, {"agg", "ping"}, {"agg", "other"},
			{"chan", "ping"}, {"chan", "other"}, {"other", "ping"}, {"unknown", "ping"}, {"ping", "garbage"}} {
			for _, round := range []int{11, 24} {
				if netMode && (round != 11 || (mm[1] != "ping" && mm[0] != "ping")) {
					continue // the TCP sub-process mode takes a sample
				}
				k := legitTok(1, round)
				f := *k
				f.Nd = 1
				hist("declared-type-"+mm[0]+"-encoded-"+mm[1], "midrun", netMode,
					recv(3, &jmsg{T: "proto", From: &f, To: k, B: mm[1], Decl: mm[0]}),
					recv(1, &jmsg{T: "proto", From: &f, To: k, B: mm[1], Decl: mm[0]}))
			}
		}
	}
	// a queued forged description whose roster arrives after the genuine tree
	for _, netMode := range []bool{false, true} {
		for i, st := range []string{"idle", "midrun", "done"} {
			in := input{Name: "late-roster-after-genuine-tree", State: st, Net: netMode, Ops: statePrefix(st)}
			in.Ops = append(in.Ops, lateRoster(2, i == 2 && !netMode)...)
			in.Ops = append(in.Ops, recv(3, &jmsg{T: "reqtree", Tree: 2, Ver: 1}))
			in.Ops = append(in.Ops, canaries(netMode)...)
			ins = append(ins, in)
		}
	}
	// aggregated and channel dispatch with peer-controlled sender tokens
	for _, netMode := range []bool{false, true} {
		var ops []jop
		for _, st := range []struct {
			tree, round, from int
			b                 string
		}{{2, 12, 2, "agg"}, {2, 12, 1, "agg"}, {2, 12, 9, "agg"}, {2, 12, 2, "agg"}, {2, 12, 2, "agg"},
			{1, 11, 1, "agg"}, {1, 11, 2, "agg"}, {1, 11, 1, "chan"}, {1, 11, 9, "chan"}, {1, 11, 2, "chan"}, {2, 12, 2, "chan"}} {
			k := legitTok(st.tree, st.round)
			f := *k
			f.Nd = st.from
			ops = append(ops, recv(3, &jmsg{T: "proto", From: &f, To: k, B: st.b}))
		}
		ops = append(ops, recv(3, &jmsg{T: "proto", To: legitTok(1, 11), B: "agg"}), recv(3, &jmsg{T: "proto", To: legitTok(1, 11), B: "chan"}))
		in := input{Name: "aggregate-and-channel", State: "midrun", Net: netMode, Ops: append(statePrefix("midrun"), legitResp(2))}
		in.Ops = append(in.Ops, ops...)
		in.Ops = append(in.Ops, canaries(netMode)...)
		ins = append(ins, in)
	}
	// after the leak of F08 the server keeps running: what blocks and what does not
	wedge := input{Name: "f08-wedge-continue", State: "idle", Continue: true, Ops: statePrefix("idle")}
	wedge.Ops = append(wedge.Ops,
		recv(3, &jmsg{T: "roster", RO: &jro{ID: 5, L: []jmem{{3, true}}}}),
		recv(3, &jmsg{T: "roster", RO: genuineRO()}),
		recv(3, &jmsg{T: "treemarshal", TM: &jtm{Tr: 2, Ro: 5, Ch: []jnode{{N: 3, S: 3}}}}),
		recv(3, &jmsg{T: "reqtree", Tree: 1, Ver: 1}),
		legitPing(1, 21, "ping"))
	ins = append(ins, wedge)
	ins = append(ins, input{Name: "f26-stress", State: "midrun", Kind: "f26-stress"})
	// a peer's message handed to an instance at the moment the instance is closed
	for _, v := range []string{"done", "close", "flush"} {
		ins = append(ins, input{Name: "race-deliver-done-" + v, State: "midrun", Kind: "race-deliver-done", Variant: v})
	}
	return ins
}

func main() {
	if _, err := onet.GlobalProtocolRegister(protoName, newProto); err != nil {
		panic(err)
	}
	network.RegisterMessages(&Ping{}, &Pong{}, &Other{}, &Marker{}, &Agg{}, &Chn{})
	if len(os.Args) > 1 && os.Args[1] == "-c07worker" {
		workerMain()
		return
	}
	log.SetDebugVisible(0)
	log.OutputToBuf()
	defer func() {
		if shared != nil {
			shared.kill()
		}
	}()
	lib.Main(lib.Harness{
		Prop:   "C07",
		Import: "Onet.Corr.C07",
		Rule: "histories = server state (idle / mid-run / after Done / mixed; tree 1 known, tree 2 requested) + 1..30 envelopes of the seven " +
			"overlay message types with every field drawn from {absent, zero, random, known, requested-not-received, running, finished} + " +
			"canary requests and canary protocol messages; half of the histories stay outside the input classes of the recorded defects; " +
			"injection through Overlay.Process in a worker sub-process and, for a sample, through real TCP connections into a fresh " +
			"sub-process; witness corpus first; non-trivial = more than 2 operations executed; distinct = distinct (history, observation)",
		Shard:    40,
		Generate: generate,
		Run:      run,
		Corpus:   corpus,
	})
}
